#!/bin/bash
# usage: verify_seed2.sh <ID>   (round 9: worktree /tmp/wt9-<ID>, deliverables /tmp/seed9-<ID>)
id=$1; wt=/tmp/wt9-$id
cd $wt || exit 2
export GOFLAGS=-mod=mod
demo=$(git status --porcelain | grep '^??' | awk '{print $2}' | grep _test.go | head -1)
echo "demo file: $demo"
pkg=./$(dirname $demo)
go build ./... || { echo "BUILD FAILS"; exit 1; }
mv $demo /tmp/demo-$id.go.bak
if go test -vet=off -count=1 ./... > /tmp/suite-$id.log 2>&1; then echo "suite with change: PASS"; else echo "suite with change: FAIL"; grep -v "^ok\|no test files" /tmp/suite-$id.log | head; fi
mv /tmp/demo-$id.go.bak $demo
names=$(grep -o 'func Test[A-Za-z0-9_]*' $demo | sed 's/func //' | paste -sd'|')
if go test -vet=off -count=1 -run "^($names)\$" $pkg > /tmp/demo-with-$id.log 2>&1; then echo "demo with change: PASS (unexpected)"; else echo "demo with change: FAIL (expected)"; fi
git diff > /tmp/vs-$id.diff
git apply -R /tmp/vs-$id.diff
if go test -vet=off -count=1 -run "^($names)\$" $pkg > /tmp/demo-without-$id.log 2>&1; then echo "demo without change: PASS (expected)"; else echo "demo without change: FAIL (unexpected)"; tail -5 /tmp/demo-without-$id.log; fi
git apply /tmp/vs-$id.diff
git diff --stat | tail -1
