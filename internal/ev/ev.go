// Package ev is the plumbing shared by every property check: it runs a
// generator -> Case -> runCase pipeline under rapid, counts what was generated,
// writes failing cases as JSON replay files and replays them without the library.
package ev

import (
	"crypto/sha256"
	"encoding/hex"
	"encoding/json"
	"fmt"
	"os"
	"path/filepath"
	"runtime/debug"
	"sort"
	"strings"
	"testing"

	"pgregory.net/rapid"
)

// Info is what runCase reports about a case besides pass/fail.
type Info struct {
	// NonTrivial: the case satisfies the property's stated non-triviality rule.
	NonTrivial bool
	// Labels classify the case (rapid-style label histogram in the evidence).
	Labels []string
	// Known: non-empty when the case failed in a way that matches the signature of a
	// finding; the value is the finding id. runCase returns a nil error in that case and
	// ev decides whether the finding is listed as open (excluded, counted) or not (violation).
	Known string
	// KnownDetail is the failure text that matched the signature.
	KnownDetail string
}

// Spec describes one part (sub-harness) of a property check.
type Spec[C any] struct {
	Property string // C05
	Part     string // list
	Rule     string // generator + non-triviality rule, goes into the evidence
	Gen      func(*rapid.T) C
	Run      func(C) (Info, error)
	// MaxSamples kept in the evidence (default 4).
	MaxSamples int
	// Journal: write every case to VERIF_JOURNAL before running it, so that a crash of the
	// whole process (panic in a goroutine of the code under test) still leaves a replayable case.
	Journal bool
	// RegressRepeat: how often each regression/replay case is executed (for code under test whose
	// behaviour depends on map iteration order); default 1.
	RegressRepeat int
}

// Replay is the format of replay and regression files.
type Replay struct {
	Property string          `json:"property"`
	Part     string          `json:"part"`
	Error    string          `json:"error,omitempty"`
	Case     json.RawMessage `json:"case"`
}

// Stats is written by a generation run for the driver to aggregate.
type Stats struct {
	Property      string            `json:"property"`
	Part          string            `json:"part"`
	Rule          string            `json:"rule"`
	Evaluations   int               `json:"evaluations"`
	NonTrivial    int               `json:"nontrivial"`
	Hashes        []string          `json:"nontrivial_hashes"`
	Labels        map[string]int    `json:"labels"`
	ExcludedKnown map[string]int    `json:"excluded_known"`
	Samples       []json.RawMessage `json:"samples"`
	Failed        bool              `json:"failed"`
	FailError     string            `json:"fail_error,omitempty"`
	Mode          string            `json:"mode"`
	Known         []KnownResult     `json:"known,omitempty"`
}

type KnownResult struct {
	ID          string `json:"id"`
	Reproduced  bool   `json:"reproduced"`
	Detail      string `json:"detail"`
	OtherError  string `json:"other_error,omitempty"`
	Description string `json:"what"`
}

// Finding is an entry of /verif/known_findings.json.
type Finding struct {
	Property   string `json:"property"`
	ID         string `json:"id"`
	Status     string `json:"status"` // open | fixed
	What       string `json:"what"`
	Part       string `json:"part,omitempty"`
	Reproducer string `json:"reproducer,omitempty"` // path relative to /verif
	Commit     string `json:"commit,omitempty"`
	Line       string `json:"line,omitempty"`
}

type findingsFile struct {
	Findings []Finding `json:"findings"`
}

func verifDir() string {
	if d := os.Getenv("VERIF_DIR"); d != "" {
		return d
	}
	return "/verif"
}

// LoadFindings reads known_findings.json (never written at run time).
func LoadFindings() []Finding {
	b, err := os.ReadFile(filepath.Join(verifDir(), "known_findings.json"))
	if err != nil {
		return nil
	}
	var f findingsFile
	if err := json.Unmarshal(b, &f); err != nil {
		panic("known_findings.json: " + err.Error())
	}
	return f.Findings
}

func openFindings(property string) map[string]Finding {
	m := map[string]Finding{}
	for _, f := range LoadFindings() {
		if f.Property == property && f.Status == "open" {
			m[f.ID] = f
		}
	}
	return m
}

func hashCase(b []byte) string {
	h := sha256.Sum256(b)
	return hex.EncodeToString(h[:8])
}

// Main runs the part in the mode selected by VERIF_MODE (gen | replay | regress | known).
func Main[C any](t *testing.T, s Spec[C]) {
	if want := os.Getenv("VERIF_PART"); want != "" && want != s.Part {
		t.Skip("part not selected")
	}
	if s.MaxSamples == 0 {
		s.MaxSamples = 4
	}
	switch os.Getenv("VERIF_MODE") {
	case "", "gen":
		runGen(t, s)
	case "replay":
		runReplay(t, s)
	case "regress":
		runRegress(t, s)
	case "known":
		runKnown(t, s)
	default:
		t.Fatalf("unknown VERIF_MODE")
	}
}

func statsPath(s string, part string) string {
	if s == "" {
		return ""
	}
	return strings.ReplaceAll(s, "%PART%", part)
}

func writeJSON(path string, v any) {
	if path == "" {
		return
	}
	b, err := json.MarshalIndent(v, "", " ")
	if err != nil {
		panic(err)
	}
	tmp := path + ".tmp"
	if err := os.WriteFile(tmp, b, 0o644); err != nil {
		panic(err)
	}
	if err := os.Rename(tmp, path); err != nil {
		panic(err)
	}
}

func runGen[C any](t *testing.T, s Spec[C]) {
	open := openFindings(s.Property)
	st := &Stats{Property: s.Property, Part: s.Part, Rule: s.Rule, Labels: map[string]int{}, ExcludedKnown: map[string]int{}, Mode: "gen"}
	hashes := map[string]struct{}{}
	failFile := statsPath(os.Getenv("VERIF_FAILFILE"), s.Part)
	out := statsPath(os.Getenv("VERIF_STATS"), s.Part)
	journal := statsPath(os.Getenv("VERIF_JOURNAL"), s.Part)
	failed := false
	flush := func() {
		st.Hashes = st.Hashes[:0]
		for h := range hashes {
			st.Hashes = append(st.Hashes, h)
		}
		sort.Strings(st.Hashes)
		st.Failed = failed
		writeJSON(out, st)
	}
	defer flush()
	rapid.Check(t, func(rt *rapid.T) {
		c := s.Gen(rt)
		var cb []byte
		if s.Journal && journal != "" {
			cb, _ = json.Marshal(c)
			writeJSON(journal, Replay{Property: s.Property, Part: s.Part, Error: "process died while running this case", Case: cb})
		}
		info, err := safeRun(s, c)
		if !failed {
			// generation phase only: shrinking re-executions are not counted
			st.Evaluations++
			for _, l := range info.Labels {
				st.Labels[l]++
			}
		}
		if err == nil && info.Known != "" {
			if _, ok := open[info.Known]; ok {
				if !failed {
					st.ExcludedKnown[info.Known]++
				}
				return
			}
			err = fmt.Errorf("failure matches signature %q which is not listed as an open finding: %s", info.Known, info.KnownDetail)
		}
		if err != nil {
			cb, _ = json.Marshal(c)
			failed = true
			st.FailError = err.Error()
			writeJSON(failFile, Replay{Property: s.Property, Part: s.Part, Error: err.Error(), Case: cb})
			rt.Fatalf("%s/%s: %v", s.Property, s.Part, err)
		}
		if !failed && info.NonTrivial {
			st.NonTrivial++
			cb, _ = json.Marshal(c)
			h := hashCase(cb)
			if _, seen := hashes[h]; !seen {
				hashes[h] = struct{}{}
				if len(st.Samples) < s.MaxSamples {
					st.Samples = append(st.Samples, cb)
				}
			}
		}
	})
}

func loadReplay[C any](path string) (Replay, C, error) {
	var r Replay
	var c C
	b, err := os.ReadFile(path)
	if err != nil {
		return r, c, err
	}
	if err := json.Unmarshal(b, &r); err != nil {
		return r, c, err
	}
	if err := json.Unmarshal(r.Case, &c); err != nil {
		return r, c, err
	}
	return r, c, nil
}

// safeRun converts a panic of the code under test (in the calling goroutine) into an error.
func safeRun[C any](s Spec[C], c C) (info Info, err error) {
	defer func() {
		if r := recover(); r != nil {
			fmt.Fprintf(os.Stderr, "panic in case: %v\n%s\n", r, debug.Stack())
			err = fmt.Errorf("panic: %v", r)
		}
		if err != nil && strings.HasPrefix(err.Error(), "harness:") {
			// a defect of the harness or an unsound generated input, never a property violation
			cb, _ := json.Marshal(c)
			fmt.Printf("HARNESS-ERROR property=%s part=%s: %v\ncase: %s\n", s.Property, s.Part, err, cb)
			os.Exit(3)
		}
	}()
	return s.Run(c)
}

// runOne evaluates a case outside rapid and maps known-finding signatures.
func runOne[C any](s Spec[C], c C) (string, error) {
	info, err := safeRun(s, c)
	if err == nil && info.Known != "" {
		if _, ok := openFindings(s.Property)[info.Known]; ok {
			return info.Known, nil
		}
		return "", fmt.Errorf("failure matches signature %q which is not listed as an open finding: %s", info.Known, info.KnownDetail)
	}
	return "", err
}

func runReplay[C any](t *testing.T, s Spec[C]) {
	path := os.Getenv("VERIF_REPLAY")
	r, c, err := loadReplay[C](path)
	if err != nil {
		t.Fatalf("cannot load replay %s: %v", path, err)
	}
	if r.Part != s.Part {
		t.Skip("replay is for another part")
	}
	known, err := runOne(s, c)
	for i := 1; i < s.RegressRepeat && err == nil; i++ {
		known, err = runOne(s, c)
	}
	if err != nil {
		fmt.Printf("REPLAY-FAIL property=%s part=%s: %v\n", s.Property, s.Part, err)
		t.Fatalf("replay fails: %v", err)
	}
	if known != "" {
		fmt.Printf("REPLAY-KNOWN property=%s part=%s finding=%s\n", s.Property, s.Part, known)
		return
	}
	fmt.Printf("REPLAY-PASS property=%s part=%s\n", s.Property, s.Part)
}

func runRegress[C any](t *testing.T, s Spec[C]) {
	dir := filepath.Join(verifDir(), "regressions", s.Property)
	files, _ := filepath.Glob(filepath.Join(dir, "*.json"))
	sort.Strings(files)
	st := &Stats{Property: s.Property, Part: s.Part, Mode: "regress", Labels: map[string]int{}, ExcludedKnown: map[string]int{}}
	out := statsPath(os.Getenv("VERIF_STATS"), s.Part)
	failFile := statsPath(os.Getenv("VERIF_FAILFILE"), s.Part)
	defer func() { writeJSON(out, st) }()
	for _, f := range files {
		r, c, err := loadReplay[C](f)
		if err != nil {
			// a file for another part has another Case type; only complain when it is ours
			var rr Replay
			b, _ := os.ReadFile(f)
			if json.Unmarshal(b, &rr) == nil && rr.Part != s.Part {
				continue
			}
			t.Fatalf("cannot load regression %s: %v", f, err)
		}
		if r.Part != s.Part {
			continue
		}
		st.Evaluations++
		known, err := runOne(s, c)
		for i := 1; i < s.RegressRepeat && err == nil; i++ {
			known, err = runOne(s, c)
		}
		if known != "" {
			st.ExcludedKnown[known]++
		}
		if err != nil {
			st.Failed = true
			st.FailError = fmt.Sprintf("%s: %v", filepath.Base(f), err)
			writeJSON(failFile, Replay{Property: s.Property, Part: s.Part, Error: err.Error(), Case: r.Case})
			t.Fatalf("regression %s fails: %v", f, err)
		}
	}
}

func runKnown[C any](t *testing.T, s Spec[C]) {
	st := &Stats{Property: s.Property, Part: s.Part, Mode: "known", Labels: map[string]int{}, ExcludedKnown: map[string]int{}}
	out := statsPath(os.Getenv("VERIF_STATS"), s.Part)
	defer func() { writeJSON(out, st) }()
	for _, f := range LoadFindings() {
		if f.Property != s.Property || f.Status != "open" || f.Part != s.Part || f.Reproducer == "" {
			continue
		}
		_, c, err := loadReplay[C](filepath.Join(verifDir(), f.Reproducer))
		if err != nil {
			t.Fatalf("cannot load reproducer of %s: %v", f.ID, err)
		}
		info, err := safeRun(s, c)
		kr := KnownResult{ID: f.ID, Description: f.What}
		switch {
		case err != nil:
			kr.OtherError = err.Error()
		case info.Known == f.ID:
			kr.Reproduced = true
			kr.Detail = info.KnownDetail
		case info.Known != "":
			kr.OtherError = "reproducer matched another signature: " + info.Known
		}
		st.Known = append(st.Known, kr)
	}
}

// Errf is a small helper for oracles.
func Errf(format string, a ...any) error { return fmt.Errorf(format, a...) }

// Fuzz runs a part as a native Go fuzz target (thorough tier only; coverage-guided, not reproducible from a
// seed - the saved failing case is the reproducible unit). decode maps the fuzzer's bytes to a case; on a failure
// the case is written to VERIF_FAILFILE in the same format as the rapid-driven run writes it.
func Fuzz[C any](f *testing.F, s Spec[C], decode func([]byte) C, seeds [][]byte) {
	if want := os.Getenv("VERIF_PART"); want != "" && want != s.Part {
		f.Skip("other part selected")
	}
	for _, sd := range seeds {
		f.Add(sd)
	}
	open := openFindings(s.Property)
	failFile := statsPath(os.Getenv("VERIF_FAILFILE"), s.Part)
	f.Fuzz(func(t *testing.T, data []byte) {
		c := decode(data)
		info, err := safeRun(s, c)
		if err == nil && info.Known != "" {
			if _, ok := open[info.Known]; ok {
				return
			}
			err = fmt.Errorf("failure matches signature %q which is not listed as an open finding: %s", info.Known, info.KnownDetail)
		}
		if err != nil {
			cb, _ := json.Marshal(c)
			writeJSON(failFile, Replay{Property: s.Property, Part: s.Part, Error: err.Error(), Case: cb})
			t.Fatalf("%s/%s: %v", s.Property, s.Part, err)
		}
	})
}
