// Package vh defines the sidecar script and the invocation log of the scripted hook
// executable (cmd/vhook) and helpers to lay out hook directories.
package vh

import (
	"bufio"
	"encoding/json"
	"fmt"
	"os"
	"path/filepath"
	"strings"
	"time"
)

// Behaviour of one execution.
type Behaviour struct {
	Exit       int    `json:"exit"`
	Signal     bool   `json:"signal,omitempty"` // kill itself with SIGKILL instead of exiting
	Gate       string `json:"gate,omitempty"`   // wait until .vhook/gates/<gate> exists
	SleepMs    int    `json:"sleep_ms,omitempty"`
	// PostGate: after the output files were written a record with phase "written" is logged and the process
	// waits for this gate before it ends
	PostGate string `json:"post_gate,omitempty"`
	Metrics    *File  `json:"metrics,omitempty"`
	Patch      *File  `json:"patch,omitempty"`
	Admission  *File  `json:"admission,omitempty"`
	Conversion *File  `json:"conversion,omitempty"`
	// ConvertTo: write a conversion response converting every object of the review in the
	// binding context to this apiVersion (computed by the hook from its input).
	ConvertTo string `json:"convert_to,omitempty"`
	// ConvertFailMsg: with ConvertTo, also put this failedMessage into the conversion response
	ConvertFailMsg string `json:"convert_fail_msg,omitempty"`
	// ConvertDrop: number of objects to drop from the converted list (negative: that many surplus copies of the first object).
	ConvertDrop int `json:"convert_drop,omitempty"`
}

// File says what to do with one output file: write Content, or Delete it.
type File struct {
	Content string `json:"content"`
	Delete  bool   `json:"delete,omitempty"`
}

// Rule selects a behaviour: first rule whose Match is a substring of the binding context file
// and whose Times budget (0 = unlimited) is not used up.
type Rule struct {
	Match string    `json:"match,omitempty"`
	Times int       `json:"times,omitempty"`
	Do    Behaviour `json:"do"`
}

type Script struct {
	Config     string `json:"config"`
	ConfigExit int    `json:"config_exit,omitempty"`
	Rules      []Rule `json:"rules,omitempty"`
}

type FileStat struct {
	Exists bool  `json:"exists"`
	Size   int64 `json:"size"`
}

// Record is one line of the invocation log.
type Record struct {
	Hook    string              `json:"hook"`
	Phase   string              `json:"phase"` // config start written end
	Seq     int                 `json:"seq"`
	Pid     int                 `json:"pid"`
	T       int64               `json:"t"` // unix nanoseconds taken inside the process
	Args    []string            `json:"args,omitempty"`
	Cwd     string              `json:"cwd,omitempty"`
	Env     map[string]string   `json:"env,omitempty"`
	Files   map[string]FileStat `json:"files,omitempty"`
	Context json.RawMessage     `json:"context,omitempty"`
	RawCtx  string              `json:"raw_context,omitempty"` // when the file is not valid JSON
	TmpList []string            `json:"tmp_list,omitempty"`
	Rule    int                 `json:"rule"`
	Exit    int                 `json:"exit"`
}

var EnvNames = []string{"BINDING_CONTEXT_PATH", "METRICS_PATH", "CONVERSION_RESPONSE_PATH", "VALIDATING_RESPONSE_PATH", "ADMISSION_RESPONSE_PATH", "KUBERNETES_PATCH_PATH"}

// Tree is a hooks directory under construction.
type Tree struct {
	Root  string
	VHook string // absolute path of the vhook binary
}

func NewTree(root, vhookBin string) (*Tree, error) {
	if err := os.MkdirAll(filepath.Join(root, ".vhook", "gates"), 0o755); err != nil {
		return nil, err
	}
	return &Tree{Root: root, VHook: vhookBin}, nil
}

// AddHook writes an executable wrapper at rel (mode given) and its script.
func (t *Tree) AddHook(rel string, mode os.FileMode, s Script) error {
	p := filepath.Join(t.Root, rel)
	if err := os.MkdirAll(filepath.Dir(p), 0o755); err != nil {
		return err
	}
	body := fmt.Sprintf("#!/bin/sh\nexec '%s' \"$0\" '%s' \"$@\"\n", t.VHook, t.Root)
	if err := os.WriteFile(p, []byte(body), 0o755); err != nil {
		return err
	}
	if err := os.Chmod(p, mode); err != nil {
		return err
	}
	return t.SetScript(rel, s)
}

func (t *Tree) scriptPath(rel string) string {
	return filepath.Join(t.Root, ".vhook", "scripts", rel+".json")
}

func (t *Tree) SetScript(rel string, s Script) error {
	sp := t.scriptPath(rel)
	if err := os.MkdirAll(filepath.Dir(sp), 0o755); err != nil {
		return err
	}
	// a new script starts with fresh rule counters
	_ = os.Remove(filepath.Join(t.Root, ".vhook", "state", rel+".json"))
	b, _ := json.Marshal(s)
	tmp := sp + ".tmp"
	if err := os.WriteFile(tmp, b, 0o644); err != nil {
		return err
	}
	return os.Rename(tmp, sp)
}

func (t *Tree) OpenGate(name string) error {
	return os.WriteFile(filepath.Join(t.Root, ".vhook", "gates", name), nil, 0o644)
}

func (t *Tree) LogPath() string { return filepath.Join(t.Root, ".vhook", "log.jsonl") }

// ReadLog returns all complete records written so far.
func (t *Tree) ReadLog() ([]Record, error) {
	f, err := os.Open(t.LogPath())
	if err != nil {
		if os.IsNotExist(err) {
			return nil, nil
		}
		return nil, err
	}
	defer f.Close()
	var out []Record
	sc := bufio.NewScanner(f)
	sc.Buffer(make([]byte, 1<<20), 64<<20)
	for sc.Scan() {
		line := sc.Bytes()
		if len(strings.TrimSpace(string(line))) == 0 {
			continue
		}
		var r Record
		if err := json.Unmarshal(line, &r); err != nil {
			// a partially written last line: ignore
			continue
		}
		out = append(out, r)
	}
	return out, nil
}

// WaitLog polls the log until pred is satisfied or the ceiling passes.
func (t *Tree) WaitLog(ceiling time.Duration, pred func([]Record) bool) ([]Record, bool) {
	deadline := time.Now().Add(ceiling)
	for {
		recs, _ := t.ReadLog()
		if pred(recs) {
			return recs, true
		}
		if time.Now().After(deadline) {
			return recs, false
		}
		time.Sleep(2 * time.Millisecond)
	}
}
