// Package e2e runs generated scenarios through the full operator (real informers, queues,
// hook processes) on a fake cluster and returns the trace seen from the hooks' side.
// Oracles for C01, C02, C06 and C09 are applied to the trace by the property packages.
package e2e

import (
	"encoding/json"
	"fmt"
	"sort"
	"strconv"
	"time"

	"pgregory.net/rapid"

	"verif/internal/hcfg"
	"verif/internal/kit"
	"verif/internal/opkit"
	"verif/internal/vh"
)

type KB struct {
	Name     string   `json:"name"`
	Jq       string   `json:"jq,omitempty"`
	KeepFull bool     `json:"keep_full"`
	Group    string   `json:"group,omitempty"`
	Includes []string `json:"includes,omitempty"`
	Events   []string `json:"events"` // executeHookOnEvent
	AllEv    bool     `json:"all_events"`
	OnSync   bool     `json:"on_sync"`
	OnlyNs   string   `json:"only_ns,omitempty"` // namespace.nameSelector with this namespace
	Queue    string   `json:"queue,omitempty"`
	// AllowFail: allowFailure of the binding (only generated for hooks whose executions never fail, so it
	// must not make any difference)
	AllowFail bool `json:"allow_failure,omitempty"`
}

type SB struct {
	Name     string   `json:"name"`
	Crontab  string   `json:"crontab"`
	Queue    string   `json:"queue,omitempty"`
	Group    string   `json:"group,omitempty"`
	Includes []string `json:"includes,omitempty"`
}

type HookSpec struct {
	Name         string `json:"name"`
	V0           bool   `json:"v0,omitempty"`
	OnStartup    *int   `json:"on_startup,omitempty"`
	Kube         []KB   `json:"kube,omitempty"`
	Sched        []SB   `json:"sched,omitempty"`
	StartupFails int    `json:"startup_fails,omitempty"`
	SyncFails    int    `json:"sync_fails,omitempty"`
	// HoldSyncs: the first n Synchronization executions of this hook are parked on a gate while cluster
	// changes of the Early list are applied (so that Events arrive while a Synchronization is running)
	HoldSyncs int `json:"hold_syncs,omitempty"`
	// MonitorFails: creating the monitor of the kubernetes binding with this index fails this many times (the kind is
	// not served yet): the hook's EnableKubernetesBindings task fails and is retried
	MonitorFails     int `json:"monitor_fails,omitempty"`
	MonitorFailIndex int `json:"monitor_fail_index,omitempty"`
}

type Step struct {
	K     string `json:"k"` // create modify delete tick settle burst
	// States (burst): the object is modified this many times in a row, without a pause
	States []int `json:"states,omitempty"`
	Ns    string `json:"ns,omitempty"`
	Name  string `json:"name,omitempty"`
	State int    `json:"state,omitempty"`
	Cron  string `json:"cron,omitempty"`
}

type Obj struct {
	Ns    string `json:"ns"`
	Name  string `json:"name"`
	State int    `json:"state"`
}

type Case struct {
	Hooks   []HookSpec `json:"hooks"`
	Initial []Obj      `json:"initial"`
	// Early: steps applied while the operator is starting (before it became idle)
	Early []Step `json:"early,omitempty"`
	Steps []Step `json:"steps"`
	// Restart: after the scenario the operator is shut down, RestartOps are applied to the cluster and a new
	// operator is started on the same cluster and hooks
	Restart    bool   `json:"restart,omitempty"`
	RestartOps []Step `json:"restart_ops,omitempty"`
}

var Crontabs = []string{"0 0 1 1 *", "0 0 2 1 *", "0 0 3 1 *"}
var Namespaces = []string{"default", "ns2"}
var Names = []string{"a", "b", "c"}

const NStates = 6

var jqPool = []string{"", "", "", ".data", ".data", "{p: .data.p}", "{p: .data.p}", "{l: .metadata.labels}", ".data.v", ".metadata.labels", "."}

// Body of an object in a state: data.v identifies the state, data.p is a coarser projection.
func Body(state int) map[string]any {
	b := map[string]any{"data": map[string]any{"v": strconv.Itoa(state), "p": strconv.Itoa(state / 2)}}
	if state%3 == 0 {
		b["metadata"] = map[string]any{"labels": map[string]any{"app": "x" + strconv.Itoa(state)}}
	}
	return b
}

func Gen(t *rapid.T) Case {
	c := Case{}
	groupPair, anyGroupPair := false, false
	nh := rapid.IntRange(1, 3).Draw(t, "nh")
	for h := 0; h < nh; h++ {
		hs := HookSpec{Name: fmt.Sprintf("h%d", h)}
		hs.V0 = rapid.IntRange(0, 7).Draw(t, "v0") == 0
		if rapid.IntRange(0, 2).Draw(t, "startup") > 0 {
			o := rapid.SampledFrom([]int{0, 1, 1, 5, 10}).Draw(t, "order")
			hs.OnStartup = &o
			if rapid.IntRange(0, 4).Draw(t, "sfail") == 0 {
				hs.StartupFails = 1
			}
		}
		nk := rapid.IntRange(0, 3).Draw(t, "nk")
		for k := 0; k < nk; k++ {
			kb := KB{Name: fmt.Sprintf("k%d", k), KeepFull: rapid.IntRange(0, 3).Draw(t, "keep") > 0, OnSync: rapid.IntRange(0, 4).Draw(t, "onsync") > 0}
			kb.Jq = rapid.SampledFrom(jqPool).Draw(t, "jq")
			kb.Group = rapid.SampledFrom([]string{"", "", "g1"}).Draw(t, "group")
			if rapid.IntRange(0, 2).Draw(t, "allev") > 0 {
				kb.AllEv = true
				kb.Events = []string{"Added", "Modified", "Deleted"}
			} else {
				kb.Events = []string{}
				for _, e := range []string{"Added", "Modified", "Deleted"} {
					if rapid.Bool().Draw(t, "ev"+e) {
						kb.Events = append(kb.Events, e)
					}
				}
			}
			if rapid.IntRange(0, 2).Draw(t, "onlyns") == 0 {
				kb.OnlyNs = "default"
			}
			kb.Queue = rapid.SampledFrom([]string{"", "", "q1"}).Draw(t, "queue")
			hs.Kube = append(hs.Kube, kb)
		}
		if len(hs.Kube) >= 2 && rapid.IntRange(0, 3).Draw(t, "grouppair") == 0 {
			hs.Kube[0].OnlyNs, hs.Kube[1].OnlyNs = "default", ""
			// (Synchronization tasks run in the main queue whatever the binding's queue is)
			hs.Kube[0].Queue, hs.Kube[1].Queue = rapid.SampledFrom([]string{"", "", "q1"}).Draw(t, "gpq0"), ""
			groupPair = true
			if rapid.Bool().Draw(t, "gsyncfail") {
				hs.SyncFails = 1
			}
			for i := 0; i < 2; i++ {
				hs.Kube[i].Group = "g1"
				hs.Kube[i].KeepFull, hs.Kube[i].AllEv, hs.Kube[i].OnSync = true, true, true
				hs.Kube[i].Events = []string{"Added", "Modified", "Deleted"}
				hs.Kube[i].Jq = ""
			}
		}
		for i := range hs.Kube {
			for j := range hs.Kube {
				if rapid.IntRange(0, 3).Draw(t, "inc") == 0 {
					hs.Kube[i].Includes = append(hs.Kube[i].Includes, hs.Kube[j].Name)
				}
			}
		}
		ns := rapid.IntRange(0, 2).Draw(t, "ns")
		groupPairHook := groupPair
		groupPair = false
		anyGroupPair = anyGroupPair || groupPairHook
		for s := 0; s < ns; s++ {
			sb := SB{Name: fmt.Sprintf("s%d", s), Crontab: rapid.SampledFrom(Crontabs).Draw(t, "crontab"), Queue: rapid.SampledFrom([]string{"", "q1", "q2"}).Draw(t, "squeue"), Group: rapid.SampledFrom([]string{"", "g1"}).Draw(t, "sgroup")}
			for _, k := range hs.Kube {
				if rapid.IntRange(0, 2).Draw(t, "sinc") == 0 {
					sb.Includes = append(sb.Includes, k.Name)
				}
				if groupPairHook {
					// only the kubernetes bindings trigger Group executions of this hook
					sb.Group = ""
				}
			}
			if s == 0 && sb.Group == "" && !hs.V0 && rapid.IntRange(0, 4).Draw(t, "sameName") == 0 {
				// binding names are unique per binding kind only: a schedule binding may be called like an
				// (ungrouped) kubernetes binding of the same hook
				for _, k := range hs.Kube {
					if k.Group == "" {
						sb.Name = k.Name
						break
					}
				}
			}
			hs.Sched = append(hs.Sched, sb)
		}
		if hs.V0 {
			// v0 has neither groups nor includes nor queues
			for i := range hs.Kube {
				hs.Kube[i].Group, hs.Kube[i].Includes, hs.Kube[i].Queue, hs.Kube[i].OnlyNs = "", nil, "", ""
				hs.Kube[i].KeepFull, hs.Kube[i].OnSync = true, true
			}
			for i := range hs.Sched {
				hs.Sched[i].Group, hs.Sched[i].Includes, hs.Sched[i].Queue = "", nil, ""
			}
		}
		if len(hs.Kube) > 0 && rapid.IntRange(0, 5).Draw(t, "syncfail") == 0 {
			hs.SyncFails = 1
		}
		if len(hs.Kube) > 0 && !hs.V0 && rapid.IntRange(0, 2).Draw(t, "hold") == 0 {
			hs.HoldSyncs = rapid.IntRange(1, 2).Draw(t, "nhold")
		}
		if len(hs.Kube) > 0 && !hs.V0 && rapid.IntRange(0, 5).Draw(t, "monfail") == 0 {
			hs.MonitorFails = rapid.IntRange(1, 2).Draw(t, "nmonfail")
			hs.MonitorFailIndex = rapid.IntRange(0, len(hs.Kube)-1).Draw(t, "monfailidx")
		}
		if hs.SyncFails == 0 && hs.StartupFails == 0 && !hs.V0 {
			for i := range hs.Kube {
				hs.Kube[i].AllowFail = rapid.IntRange(0, 2).Draw(t, "allowfail") == 0
			}
		}
		if hs.OnStartup == nil && len(hs.Kube) == 0 && len(hs.Sched) == 0 {
			o := 1
			hs.OnStartup = &o
		}
		c.Hooks = append(c.Hooks, hs)
	}
	for _, ns := range Namespaces {
		for _, n := range Names {
			if rapid.IntRange(0, 2).Draw(t, "init") == 0 {
				c.Initial = append(c.Initial, Obj{ns, n, rapid.IntRange(0, NStates-1).Draw(t, "istate")})
			}
		}
	}
	genStep := func() Step {
		k := rapid.SampledFrom([]string{"create", "modify", "modify", "delete", "tick", "settle", "settle", "burst"}).Draw(t, "sk")
		st := Step{K: k}
		switch k {
		case "burst":
			st.Ns = rapid.SampledFrom(Namespaces).Draw(t, "sns")
			st.Name = rapid.SampledFrom(Names).Draw(t, "sname")
			first := rapid.IntRange(0, NStates-1).Draw(t, "bfirst")
			for i, n := 0, rapid.IntRange(3, 6).Draw(t, "blen"); i < n; i++ {
				// consecutive states differ: every modification is a change
				st.States = append(st.States, (first+i)%NStates)
			}
		case "tick":
			st.Cron = rapid.SampledFrom(Crontabs).Draw(t, "cron")
		case "settle":
		default:
			st.Ns = rapid.SampledFrom(Namespaces).Draw(t, "sns")
			st.Name = rapid.SampledFrom(Names).Draw(t, "sname")
			st.State = rapid.IntRange(0, NStates-1).Draw(t, "sstate")
		}
		return st
	}
	for i, n := 0, rapid.IntRange(0, 4).Draw(t, "nearly"); i < n; i++ {
		c.Early = append(c.Early, genStep())
	}
	for i, n := 0, rapid.IntRange(1, 10).Draw(t, "nsteps"); i < n; i++ {
		c.Steps = append(c.Steps, genStep())
	}
	if anyGroupPair && rapid.Bool().Draw(t, "lastns2") {
		// the last change concerns an object that only the second binding of the pair selects
		c.Steps = append(c.Steps, Step{K: "modify", Ns: "ns2", Name: rapid.SampledFrom(Names).Draw(t, "lname"), State: rapid.IntRange(0, NStates-1).Draw(t, "lstate")})
	}
	if rapid.IntRange(0, 3).Draw(t, "restart") == 0 {
		c.Restart = true
		for i, n := 0, rapid.IntRange(0, 3).Draw(t, "nrops"); i < n; i++ {
			st := genStep()
			if st.K == "tick" || st.K == "settle" {
				continue
			}
			c.RestartOps = append(c.RestartOps, st)
		}
	}
	return c
}

// Config renders the hook configuration.
func (h HookSpec) Config() string {
	if h.V0 {
		m := map[string]any{}
		if h.OnStartup != nil {
			m["onStartup"] = *h.OnStartup
		}
		var ks []any
		for _, k := range h.Kube {
			evs := []string{}
			for _, e := range k.Events {
				evs = append(evs, map[string]string{"Added": "add", "Modified": "update", "Deleted": "delete"}[e])
			}
			x := map[string]any{"name": k.Name, "kind": "ConfigMap", "event": evs, "namespaceSelector": map[string]any{"any": true}}
			if k.Jq != "" {
				x["jqFilter"] = k.Jq
			}
			ks = append(ks, x)
		}
		if ks != nil {
			m["onKubernetesEvent"] = ks
		}
		var ss []any
		for _, s := range h.Sched {
			ss = append(ss, map[string]any{"name": s.Name, "crontab": s.Crontab})
		}
		if ss != nil {
			m["schedule"] = ss
		}
		b, _ := json.Marshal(m)
		return string(b)
	}
	d := hcfg.D{OnStartup: h.OnStartup}
	for _, k := range h.Kube {
		kk := hcfg.Kube{Name: k.Name, Kind: "ConfigMap", ApiVersion: "v1", JqFilter: k.Jq, Group: k.Group, Includes: k.Includes, Queue: k.Queue, KeepFull: hcfg.B(k.KeepFull), OnSync: hcfg.B(k.OnSync)}
		if k.AllowFail {
			kk.AllowFail = hcfg.B(true)
		}
		if !k.AllEv {
			evs := append([]string{}, k.Events...)
			kk.Events = &evs
		}
		if k.OnlyNs != "" {
			kk.Namespace = &hcfg.NsSel{NameSelector: &hcfg.NameSel{MatchNames: []string{k.OnlyNs}}}
		}
		d.Kube = append(d.Kube, kk)
	}
	for _, s := range h.Sched {
		d.Schedules = append(d.Schedules, hcfg.Sched{Name: s.Name, Crontab: s.Crontab, Queue: s.Queue, Group: s.Group, Includes: s.Includes})
	}
	return d.JSON()
}

// Exec is one hook execution as logged by the hook process.
type Exec struct {
	Hook     string
	Seq      int
	Start    int64
	End      int64
	Exit     int
	Contexts []map[string]any
	Raw      string
}

type Trace struct {
	Case    Case
	Execs   []Exec
	Cluster map[string]int // ns/name -> state at the end
	// History of states per object, in the order the harness applied the changes (first element: initial state or -1)
	History map[string][]int
	// IdleAfterStart: log position (number of executions) when the operator first became idle
	StartupExecs int
	HeldSyncs    int
	// RestartIndex: number of executions before the restart (valid when Restarted)
	// LastStepChange: time (unix ns) of the last change applied to an object during the Steps phase
	LastStepChange map[string]int64
	// FinalTicksAt: time at which the harness injected its final ticks (0 if none yet)
	FinalTicksAt     int64
	Restarted        bool
	RestartIndex     int
	ClusterAtRestart map[string]int
	Problems         []string
}

// Run executes the scenario.
func Run(c Case) (*Trace, error) {
	tr := &Trace{Case: c, Cluster: map[string]int{}, History: map[string][]int{}, LastStepChange: map[string]int64{}}
	stepsPhase := false
	fc := kit.NewCluster(Namespaces...)
	for _, o := range c.Initial {
		k := o.Ns + "/" + o.Name
		if _, dup := tr.Cluster[k]; dup {
			continue
		}
		if err := kit.Create(fc, kit.Obj(o.Ns, o.Name, Body(o.State))); err != nil {
			return nil, fmt.Errorf("harness: %v", err)
		}
		tr.Cluster[k] = o.State
		tr.History[k] = []int{o.State}
	}
	env, err := opkit.New("e2e", fc)
	if err != nil {
		return nil, fmt.Errorf("harness: %v", err)
	}
	defer env.Close()
	gateOf := map[string]string{} // "hook/ruleIndex" -> gate name
	for _, h := range c.Hooks {
		var rules []vh.Rule
		if h.StartupFails > 0 {
			rules = append(rules, vh.Rule{Match: `"binding": "onStartup"`, Times: h.StartupFails, Do: vh.Behaviour{Exit: 1}})
		}
		if h.SyncFails > 0 {
			rules = append(rules, vh.Rule{Match: `"type": "Synchronization"`, Times: h.SyncFails, Do: vh.Behaviour{Exit: 1}})
			// the Synchronization of grouped bindings arrives as a Group context: its first execution fails too
			rules = append(rules, vh.Rule{Match: `"type": "Group"`, Times: h.SyncFails, Do: vh.Behaviour{Exit: 1}})
		}
		for j := 0; j < h.HoldSyncs; j++ {
			gate := fmt.Sprintf("gs-%s-%d", h.Name, j)
			gateOf[fmt.Sprintf("%s/%d", h.Name, len(rules))] = gate
			rules = append(rules, vh.Rule{Match: `"type": "Synchronization"`, Times: 1, Do: vh.Behaviour{Gate: gate}})
		}
		if err := env.Tree.AddHook(h.Name, 0o755, vh.Script{Config: h.Config(), Rules: rules}); err != nil {
			return nil, fmt.Errorf("harness: %v", err)
		}
	}
	for _, h := range c.Hooks {
		if h.MonitorFails > 0 && h.MonitorFailIndex < len(h.Kube) {
			if env.AddMonitorFaults == nil {
				env.AddMonitorFaults = map[string]int{}
			}
			env.AddMonitorFaults[h.Name+"/"+h.Kube[h.MonitorFailIndex].Name] = h.MonitorFails
		}
	}
	if err := env.Assemble(); err != nil {
		return nil, fmt.Errorf("harness: assemble: %v\n%s", err, c.Hooks[0].Config())
	}
	apply := func(st Step) error {
		k := st.Ns + "/" + st.Name
		_, exists := tr.Cluster[k]
		switch st.K {
		case "create", "modify":
			if _, seen := tr.History[k]; !seen {
				tr.History[k] = []int{-1}
			}
			if exists {
				if err := kit.Update(fc, kit.Obj(st.Ns, st.Name, Body(st.State))); err != nil {
					return err
				}
			} else {
				if err := kit.Create(fc, kit.Obj(st.Ns, st.Name, Body(st.State))); err != nil {
					return err
				}
			}
			prev := tr.Cluster[k]
			tr.Cluster[k] = st.State
			tr.History[k] = append(tr.History[k], st.State)
			if stepsPhase && (!exists || prev != st.State) {
				// (an update that leaves the object as it is changes nothing a binding could report)
				tr.LastStepChange[k] = time.Now().UnixNano()
			}
		case "delete":
			if !exists {
				return nil
			}
			if err := kit.Delete(fc, st.Ns, st.Name); err != nil {
				return err
			}
			delete(tr.Cluster, k)
			tr.History[k] = append(tr.History[k], -1)
			if stepsPhase {
				tr.LastStepChange[k] = time.Now().UnixNano()
			}
		case "tick":
			env.Tick(st.Cron)
		case "settle":
			if !env.WaitIdle(30*time.Millisecond, 30*time.Second) {
				tr.Problems = append(tr.Problems, "operator did not become idle within 30s")
			}
		}
		return nil
	}
	applyOne := apply
	apply = func(st Step) error {
		if st.K != "burst" {
			return applyOne(st)
		}
		for _, s := range st.States {
			if err := applyOne(Step{K: "modify", Ns: st.Ns, Name: st.Name, State: s}); err != nil {
				return err
			}
		}
		return nil
	}
	env.Start()
	// startup driver: whenever a Synchronization execution is parked on a gate, apply the next early
	// changes, give the events a moment to travel, then let it finish
	early := append([]Step{}, c.Early...)
	nextEarly := func() {
		for len(early) > 0 {
			st := early[0]
			early = early[1:]
			if st.K == "settle" {
				continue
			}
			_ = apply(st)
			return
		}
	}
	if len(gateOf) == 0 {
		for len(early) > 0 {
			nextEarly()
		}
	}
	opened := map[string]bool{}
	deadline := time.Now().Add(30 * time.Second)
	var idleSince time.Time
	for {
		recs, _ := env.Tree.ReadLog()
		ended := map[string]bool{}
		for _, r := range recs {
			if r.Phase == "end" {
				ended[fmt.Sprintf("%s/%d", r.Hook, r.Seq)] = true
			}
		}
		parkedGate := ""
		for _, r := range recs {
			if r.Phase == "start" && !ended[fmt.Sprintf("%s/%d", r.Hook, r.Seq)] {
				if g, ok := gateOf[fmt.Sprintf("%s/%d", r.Hook, r.Rule)]; ok && !opened[g] {
					parkedGate = g
				}
			}
		}
		if parkedGate != "" {
			nextEarly()
			nextEarly()
			// every crontab fires while a Synchronization is still running: hooks whose schedules are not
			// enabled yet must not get tasks from these ticks
			for _, cr := range Crontabs {
				env.Tick(cr)
			}
			time.Sleep(15 * time.Millisecond)
			_ = env.Tree.OpenGate(parkedGate)
			opened[parkedGate] = true
			tr.HeldSyncs++
			idleSince = time.Time{}
			continue
		}
		if env.IdleNow() {
			if idleSince.IsZero() {
				idleSince = time.Now()
			}
			if time.Since(idleSince) > 30*time.Millisecond {
				if len(early) > 0 {
					nextEarly()
					idleSince = time.Time{}
					continue
				}
				break
			}
		} else {
			idleSince = time.Time{}
		}
		if time.Now().After(deadline) {
			tr.Problems = append(tr.Problems, "operator did not become idle within 30s after start")
			break
		}
		time.Sleep(time.Millisecond)
	}
	recs, _ := env.Tree.ReadLog()
	for _, r := range recs {
		if r.Phase == "start" {
			tr.StartupExecs++
		}
	}
	stepsPhase = true
	for _, st := range c.Steps {
		if err := apply(st); err != nil {
			return nil, fmt.Errorf("harness: %v", err)
		}
	}
	// (a longer quiet period than elsewhere: on a loaded machine the informers can lag behind the last changes by
	// tens of milliseconds, and the snapshots read after this point are judged against the cluster)
	if !env.WaitIdle(120*time.Millisecond, 30*time.Second) {
		tr.Problems = append(tr.Problems, "operator did not become idle within 30s at the end")
	}
	stepsPhase = false
	// final probe: every schedule crontab once more, so that fresh snapshots are visible at quiescence
	tr.FinalTicksAt = time.Now().UnixNano()
	for _, cr := range Crontabs {
		env.Tick(cr)
	}
	if !env.WaitIdle(40*time.Millisecond, 30*time.Second) {
		tr.Problems = append(tr.Problems, "operator did not become idle within 30s after the final ticks")
	}
	if c.Restart {
		recs, _ = env.Tree.ReadLog()
		for _, r := range recs {
			if r.Phase == "start" {
				tr.RestartIndex++
			}
		}
		tr.Restarted = true
		tr.ClusterAtRestart = map[string]int{}
		for k, v := range tr.Cluster {
			tr.ClusterAtRestart[k] = v
		}
		// gates that were never used in the first run must not park anything after the restart
		for _, g := range gateOf {
			_ = env.Tree.OpenGate(g)
		}
		// the operator is down while these changes happen
		env.Op.Shutdown()
		for _, st := range c.RestartOps {
			if err := apply(st); err != nil {
				return nil, fmt.Errorf("harness: %v", err)
			}
		}
		if err := env.Restart(); err != nil {
			return nil, fmt.Errorf("harness: restart: %v", err)
		}
		if !env.WaitIdle(40*time.Millisecond, 30*time.Second) {
			tr.Problems = append(tr.Problems, "operator did not become idle within 30s after the restart: "+env.WhyNotIdle)
		}
	}
	recs, _ = env.Tree.ReadLog()
	ends := map[string]vh.Record{}
	for _, r := range recs {
		if r.Phase == "end" {
			ends[fmt.Sprintf("%s/%d", r.Hook, r.Seq)] = r
		}
	}
	for _, r := range recs {
		if r.Phase != "start" {
			continue
		}
		e := Exec{Hook: r.Hook, Seq: r.Seq, Start: r.T, Exit: r.Exit, Raw: r.RawCtx}
		if en, ok := ends[fmt.Sprintf("%s/%d", r.Hook, r.Seq)]; ok {
			e.End = en.T
		}
		if r.Context != nil {
			_ = json.Unmarshal(r.Context, &e.Contexts)
		}
		tr.Execs = append(tr.Execs, e)
	}
	if !tr.Restarted {
		sort.SliceStable(tr.Execs, func(i, j int) bool { return tr.Execs[i].Start < tr.Execs[j].Start })
	}
	return tr, nil
}

// FirstRun returns the trace of the first operator run only (before the restart, if any).
func (t *Trace) FirstRun() *Trace {
	if !t.Restarted {
		return t
	}
	c := *t
	n := t.RestartIndex
	if n > len(t.Execs) {
		n = len(t.Execs)
	}
	c.Execs = t.Execs[:n]
	c.Cluster = t.ClusterAtRestart
	c.Restarted = false
	return &c
}

// Hook returns the spec of a hook by name.
func (c Case) Hook(name string) *HookSpec {
	for i := range c.Hooks {
		if c.Hooks[i].Name == name {
			return &c.Hooks[i]
		}
	}
	return nil
}

func (h HookSpec) KubeBinding(name string) *KB {
	for i := range h.Kube {
		if h.Kube[i].Name == name {
			return &h.Kube[i]
		}
	}
	return nil
}

func (h HookSpec) SchedBinding(name string) *SB {
	for i := range h.Sched {
		if h.Sched[i].Name == name {
			return &h.Sched[i]
		}
	}
	return nil
}

// EffectiveIncludes = declared includes plus kubernetes bindings of the same group (sorted set).
func (h HookSpec) EffectiveIncludes(declared []string, group string) []string {
	set := map[string]bool{}
	for _, s := range declared {
		set[s] = true
	}
	if group != "" {
		for _, k := range h.Kube {
			if k.Group == group {
				set[k.Name] = true
			}
		}
	}
	out := []string{}
	for s := range set {
		out = append(out, s)
	}
	sort.Strings(out)
	return out
}

// Selects reports whether a kubernetes binding selects an object key (ns/name).
func (k KB) Selects(key string) bool {
	if k.OnlyNs == "" {
		return true
	}
	return len(key) > len(k.OnlyNs) && key[:len(k.OnlyNs)+1] == k.OnlyNs+"/"
}
