package e2e

import (
	"fmt"
	"sort"
	"strconv"
	"strings"
)

// CtxRef locates one binding context in the trace.
type CtxRef struct {
	Exec *Exec
	Idx  int
	Ctx  map[string]any
}

func (t *Trace) Contexts(hook string) []CtxRef {
	var out []CtxRef
	for i := range t.Execs {
		ex := &t.Execs[i]
		if ex.Hook != hook {
			continue
		}
		for j, c := range ex.Contexts {
			out = append(out, CtxRef{ex, j, c})
		}
	}
	return out
}

// ItemKeyState extracts ns/name and state from an {object: ...} item; ok=false without a full object.
func ItemKeyState(item map[string]any) (string, int, bool) {
	o, ok := item["object"].(map[string]any)
	if !ok {
		return "", 0, false
	}
	md, _ := o["metadata"].(map[string]any)
	ns, _ := md["namespace"].(string)
	name, _ := md["name"].(string)
	d, _ := o["data"].(map[string]any)
	v, _ := d["v"].(string)
	st, err := strconv.Atoi(v)
	if err != nil {
		return "", 0, false
	}
	return ns + "/" + name, st, true
}

// ListState turns a list of items into key -> state; dup reports a key listed twice, sorted reports ns/name order.
func ListState(l []any) (m map[string]int, dup string, sorted bool, ok bool) {
	m = map[string]int{}
	sorted, ok = true, true
	prev := ""
	for _, it := range l {
		im, isMap := it.(map[string]any)
		if !isMap {
			return m, "", sorted, false
		}
		k, st, has := ItemKeyState(im)
		if !has {
			return m, "", sorted, false
		}
		if _, seen := m[k]; seen {
			dup = k
		}
		m[k] = st
		cur := strings.Replace(k, "/", "\x00", 1)
		if cur < prev {
			sorted = false
		}
		prev = cur
	}
	return m, dup, sorted, ok
}

// Matching returns the final cluster objects selected by a binding.
func (t *Trace) Matching(kb KB) map[string]int {
	m := map[string]int{}
	for k, st := range t.Cluster {
		if kb.Selects(k) {
			m[k] = st
		}
	}
	return m
}

func FmtState(m map[string]int) string {
	ks := []string{}
	for k := range m {
		ks = append(ks, k)
	}
	sort.Strings(ks)
	var sb []string
	for _, k := range ks {
		sb = append(sb, fmt.Sprintf("%s=%d", k, m[k]))
	}
	return "{" + strings.Join(sb, " ") + "}"
}

// SyncSuccess finds the successful execution carrying the Synchronization context of an ungrouped binding.
func (t *Trace) SyncSuccess(hook, binding string) *CtxRef {
	for _, r := range t.Contexts(hook) {
		if r.Exec.Exit == 0 && r.Ctx["binding"] == binding && r.Ctx["type"] == "Synchronization" {
			rr := r
			return &rr
		}
	}
	return nil
}
