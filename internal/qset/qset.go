// Package qset drives a real TaskQueueSet (several named queues, real events handler) with
// handshake handlers. It is the queue-level harness of C03 (mutual exclusion, head first,
// independence of queues) and C17 (stop at generated points).
package qset

import (
	"context"
	"fmt"
	"strings"
	"sync"
	"time"

	"github.com/deckhouse/deckhouse/pkg/log"
	shop "github.com/flant/shell-operator/pkg/shell-operator"
	"github.com/flant/shell-operator/pkg/task"
	"github.com/flant/shell-operator/pkg/task/queue"
	"pgregory.net/rapid"

	"verif/internal/ev"
	"verif/internal/qh"
)

type NewTask struct {
	Queue string `json:"q"`
	ID    string `json:"id"`
}

type Action struct {
	K      string    `json:"k"` // inject release stall stop
	Tasks  []NewTask `json:"tasks,omitempty"`
	Queue  string    `json:"queue,omitempty"`
	Status string    `json:"status,omitempty"`
	Head   []string  `json:"head,omitempty"`
	Tail   []string  `json:"tail,omitempty"`
	// LongBackoff: for a Fail or Repeat release, make the delay before the next pick long (the next
	// action is expected to be stop, which then lands inside the delay)
	LongBackoff bool `json:"long_backoff,omitempty"`
	// StopInAfterHandle: the stop request is made from the AfterHandle callback of this release, i.e. after the
	// handler returned and its result was applied but before the worker picks its next task
	StopInAfterHandle bool `json:"stop_in_after_handle,omitempty"`
}

type Case struct {
	Queues  []string `json:"queues"`
	Actions []Action `json:"actions"`
	// AfterStop: tasks added to every queue after the stop request
	AfterStop int `json:"after_stop"`
	// StopVia: how the stop request is made: "" TaskQueueSet.Stop; "context" the context the operator was created
	// with is cancelled; "deadline" that context ends because its deadline passed
	StopVia string `json:"stop_via,omitempty"`
}

// endableCtx is a context whose end the harness triggers: it then reports the error of a passed deadline. It
// implements the AfterFunc method the context package looks for, so that contexts derived from it are ended
// synchronously inside expire() (as a cancel function does for its descendants), not by a watcher goroutine.
type endableCtx struct {
	context.Context
	done  chan struct{}
	mu    sync.Mutex
	err   error
	next  int
	funcs map[int]func()
}

func newEndableCtx() *endableCtx {
	return &endableCtx{Context: context.Background(), done: make(chan struct{}), funcs: map[int]func(){}}
}

func (d *endableCtx) Done() <-chan struct{} { return d.done }
func (d *endableCtx) Err() error {
	d.mu.Lock()
	defer d.mu.Unlock()
	return d.err
}
func (d *endableCtx) AfterFunc(f func()) func() bool {
	d.mu.Lock()
	defer d.mu.Unlock()
	if d.err != nil {
		go f()
		return func() bool { return false }
	}
	id := d.next
	d.next++
	d.funcs[id] = f
	return func() bool {
		d.mu.Lock()
		defer d.mu.Unlock()
		_, ok := d.funcs[id]
		delete(d.funcs, id)
		return ok
	}
}
func (d *endableCtx) expire() {
	d.mu.Lock()
	if d.err != nil {
		d.mu.Unlock()
		return
	}
	d.err = context.DeadlineExceeded
	close(d.done)
	var fs []func()
	for _, f := range d.funcs {
		fs = append(fs, f)
	}
	d.funcs = map[int]func(){}
	d.mu.Unlock()
	for _, f := range fs {
		f()
	}
}

var QueueNames = []string{"main", "q1", "q2", "q3"}

// Gen generates a case; withStop adds a stop action at a generated point.
func Gen(t *rapid.T, withStop bool) Case {
	nq := rapid.IntRange(1, 4).Draw(t, "nq")
	c := Case{Queues: QueueNames[:nq], AfterStop: 3}
	n := rapid.IntRange(1, 30).Draw(t, "n")
	next := 0
	fresh := func() string { next++; return fmt.Sprintf("t%d", next) }
	q := func(label string) string { return c.Queues[rapid.IntRange(0, nq-1).Draw(t, label)] }
	stopAt := -1
	if withStop {
		stopAt = rapid.IntRange(0, n).Draw(t, "stopAt")
		c.StopVia = rapid.SampledFrom([]string{"", "", "context", "deadline"}).Draw(t, "stopVia")
	}
	for i := 0; i <= n; i++ {
		if i == stopAt {
			c.Actions = append(c.Actions, Action{K: "stop"})
			break
		}
		if i == n {
			break
		}
		k := rapid.SampledFrom([]string{"inject", "inject", "release", "release", "release", "stall"}).Draw(t, "k")
		preStop := withStop && i+1 == stopAt
		if preStop && rapid.Bool().Draw(t, "releaseBeforeStop") {
			k = "release"
		}
		a := Action{K: k}
		switch k {
		case "inject":
			m := rapid.IntRange(1, 4).Draw(t, "m")
			for j := 0; j < m; j++ {
				a.Tasks = append(a.Tasks, NewTask{Queue: q("tq"), ID: fresh()})
			}
		case "release":
			a.Queue = q("rq")
			a.Status = rapid.SampledFrom([]string{"Success", "Success", "Success", "Fail", "Keep", "Repeat"}).Draw(t, "status")
			for j := rapid.IntRange(0, 2).Draw(t, "nh"); j > 0; j-- {
				a.Head = append(a.Head, fresh())
			}
			for j := rapid.IntRange(0, 2).Draw(t, "nt"); j > 0; j-- {
				a.Tail = append(a.Tail, fresh())
			}
			if preStop && rapid.Bool().Draw(t, "failBeforeStop") {
				a.Status = rapid.SampledFrom([]string{"Fail", "Repeat"}).Draw(t, "delayKind")
			}
			if preStop && (a.Status == "Fail" || a.Status == "Repeat") {
				a.LongBackoff = true
			}
			if preStop && (a.Status == "Success" || a.Status == "Keep") && rapid.Bool().Draw(t, "stopInAfterHandle") {
				a.StopInAfterHandle = true
			}
		case "stall":
			a.Queue = q("sq")
		}
		c.Actions = append(c.Actions, a)
	}
	return c
}

type qstate struct {
	w       *qh.Worker
	model   []task.Task
	stalled bool
	backoff bool // released with a long back-off, worker is waiting
}

func ids(ts []task.Task) []string {
	out := []string{}
	for _, t := range ts {
		out = append(out, t.GetId())
	}
	return out
}

// Run executes a case against the real queue set.
func Run(c Case) (ev.Info, error) {
	info := ev.Info{}
	if len(c.Queues) == 0 {
		return info, nil
	}
	dctx := newEndableCtx()
	defer dctx.expire()
	ctx, cancel := context.WithCancel(dctx)
	defer cancel()
	op := shop.NewShellOperator(ctx, shop.WithLogger(log.NewNop()))
	op.SetupEventManagers()
	tqs := op.TaskQueues
	stopNow := func() {
		switch c.StopVia {
		case "context":
			cancel()
		case "deadline":
			dctx.expire()
		default:
			tqs.Stop()
		}
	}
	if c.StopVia != "" {
		info.Labels = append(info.Labels, "stop-via:"+c.StopVia)
	}
	qs := map[string]*qstate{}
	for _, name := range c.Queues {
		st := &qstate{}
		name := name
		var w *qh.Worker
		tqs.NewNamedQueue(name, func(t task.Task) queue.TaskResult { return w.Handler(t) })
		w = qh.Attach(tqs.GetByName(name), name)
		// Attach replaced the handler with w.Handler directly
		st.w = w
		qs[name] = st
	}
	// the real events handler turns injected "schedule events" into tail tasks
	op.ManagerEventsHandler.WithScheduleEventHandler(func(spec string) []task.Task {
		var out []task.Task
		for _, part := range strings.Split(spec, ",") {
			if part == "" {
				continue
			}
			kv := strings.SplitN(part, ":", 2)
			bt := qh.NewTask(kv[1])
			bt.WithQueueName(kv[0])
			out = append(out, bt)
		}
		return out
	})
	op.ManagerEventsHandler.Start()
	tqs.Start()
	defer func() {
		cancel()
		for _, st := range qs {
			if st.w.InFlight != nil {
				_ = st.w.Release(queue.TaskResult{Status: queue.Keep}, false)
			}
		}
	}()
	inject := func(tasks []NewTask) error {
		var sb []string
		for _, nt := range tasks {
			sb = append(sb, nt.Queue+":"+nt.ID)
		}
		ch := op.ScheduleManager.Ch()
		for _, ev := range []string{strings.Join(sb, ","), "", ""} {
			select {
			case ch <- ev:
			case <-time.After(20 * time.Second):
				busy := []string{}
				for _, n2 := range c.Queues {
					if qs[n2].w.InFlight != nil {
						busy = append(busy, n2)
					}
				}
				return fmt.Errorf("the events handler did not take an event within 20s (queues inside a handler: %v): new tasks reach no queue any more, busy queues hold up all the others", busy)
			}
		}
		return nil
	}
	// settle: every non-stalled queue with work and no in-flight handler must enter the handler on its head.
	check := func(where string) error {
		for _, name := range c.Queues {
			st := qs[name]
			obs := qh.Snapshot(st.w.Q)
			if fmt.Sprint(ids(obs)) != fmt.Sprint(ids(st.model)) {
				return fmt.Errorf("%s: queue %s holds %v, expected %v", where, name, ids(obs), ids(st.model))
			}
			for i := range obs {
				if obs[i] != st.model[i] {
					return fmt.Errorf("%s: queue %s position %d holds another task object", where, name, i)
				}
			}
		}
		for _, name := range c.Queues {
			st := qs[name]
			if st.w.InFlight != nil {
				if t, extra := st.w.PollStart(); extra {
					return fmt.Errorf("%s: queue %s: handler entered for task %s while task %s of the same queue is still being handled", where, name, t.GetId(), st.w.InFlight.GetId())
				}
				continue
			}
			if len(st.model) == 0 || st.backoff {
				continue
			}
			t, err := st.w.AwaitStart()
			if err != nil {
				stalled := []string{}
				for _, n2 := range c.Queues {
					if qs[n2].stalled {
						stalled = append(stalled, n2)
					}
				}
				return fmt.Errorf("%s: %v (stalled queues: %v)", where, err, stalled)
			}
			if t != st.model[0] {
				return fmt.Errorf("%s: queue %s executes task %s but its head is %s (queue %v)", where, name, t.GetId(), st.model[0].GetId(), ids(st.model))
			}
			if got := t.GetQueueName(); got != name {
				return fmt.Errorf("%s: worker of queue %s executes task %s that belongs to queue %s", where, name, t.GetId(), got)
			}
		}
		return nil
	}
	stopped := false
	stoppedAfterHandle := ""
	pendingElsewhere := false
	for step, a := range c.Actions {
		where := fmt.Sprintf("step %d %s", step, a.K)
		switch a.K {
		case "inject":
			var byQ = map[string][]string{}
			for _, nt := range a.Tasks {
				if _, ok := qs[nt.Queue]; !ok {
					continue
				}
				byQ[nt.Queue] = append(byQ[nt.Queue], nt.ID)
			}
			var valid []NewTask
			for _, nt := range a.Tasks {
				if _, ok := qs[nt.Queue]; ok {
					valid = append(valid, nt)
				}
			}
			before := map[string]int{}
			for n, st := range qs {
				before[n] = len(st.model)
			}
			if err := inject(valid); err != nil {
				return info, fmt.Errorf("%s: %v", where, err)
			}
			// find the task objects the handler created
			for _, name := range c.Queues {
				st := qs[name]
				obs := qh.Snapshot(st.w.Q)
				want := byQ[name]
				// new tasks are at the tail in injection order
				if len(obs) < len(want) {
					return info, fmt.Errorf("%s: queue %s holds %v after injecting %v", where, name, ids(obs), want)
				}
				tail := obs[len(obs)-len(want):]
				if fmt.Sprint(ids(tail)) != fmt.Sprint(want) && len(want) > 0 {
					return info, fmt.Errorf("%s: queue %s holds %v, tasks %v were expected at its tail in the order received", where, name, ids(obs), want)
				}
				st.model = append(st.model, tail...)
			}
		case "stall":
			if st, ok := qs[a.Queue]; ok {
				st.stalled = true
			}
		case "release":
			st, ok := qs[a.Queue]
			if !ok || st.stalled || st.w.InFlight == nil {
				continue
			}
			t := st.w.InFlight
			res := queue.TaskResult{Status: queue.TaskStatus(a.Status)}
			var head, tail []task.Task
			for _, id := range a.Head {
				bt := qh.NewTask(id)
				bt.WithQueueName(a.Queue)
				head = append(head, bt)
			}
			for _, id := range a.Tail {
				bt := qh.NewTask(id)
				bt.WithQueueName(a.Queue)
				tail = append(tail, bt)
			}
			res.HeadTasks, res.TailTasks = head, tail
			if a.LongBackoff && a.Status == "Fail" {
				st.w.Q.ExponentialBackoffFn = func(int) time.Duration { return 300 * time.Millisecond }
				st.backoff = true
			}
			if a.LongBackoff && a.Status == "Repeat" {
				// the production relation: the repeat delay (25ms) is shorter than the wait loop tick (125ms)
				st.w.Q.WaitLoopCheckInterval = 150 * time.Millisecond
				st.w.Q.DelayOnRepeat = 40 * time.Millisecond
				st.backoff = true
			}
			switch res.Status {
			case queue.Success, queue.Keep:
				m := st.model
				if res.Status == queue.Success {
					for i, x := range m {
						if x == t {
							m = append(append([]task.Task{}, m[:i]...), m[i+1:]...)
							break
						}
					}
				}
				nm := append([]task.Task{}, head...)
				nm = append(nm, m...)
				nm = append(nm, tail...)
				st.model = nm
			}
			for n2, s2 := range qs {
				if n2 != a.Queue && len(s2.model) > 0 {
					pendingElsewhere = true
				}
			}
			if a.StopInAfterHandle && step+1 < len(c.Actions) && c.Actions[step+1].K == "stop" {
				res.AfterHandle = func() { stopNow() }
				stoppedAfterHandle = a.Queue
				stopped = true
			}
			if err := st.w.Release(res, true); err != nil {
				return info, fmt.Errorf("%s: %v", where, err)
			}
		case "stop":
			stopped = true
		}
		if stopped {
			break
		}
		if err := check(where); err != nil {
			return info, err
		}
	}
	nStalledWithOthersBusy := 0
	for n, st := range qs {
		if st.stalled {
			for n2, s2 := range qs {
				if n2 != n && len(s2.model) > 0 {
					nStalledWithOthersBusy++
				}
			}
		}
	}
	if pendingElsewhere || nStalledWithOthersBusy > 0 {
		info.NonTrivial = true
	}
	if nStalledWithOthersBusy > 0 {
		info.Labels = append(info.Labels, "stalled-while-others-work")
	}
	if !stopped {
		return info, nil
	}

	// ---------------- stop (C17) ----------------
	nonEmpty := false
	allowed := map[string]int{}
	for n, st := range qs {
		if len(st.model) > 0 {
			nonEmpty = true
		}
		switch {
		case n == stoppedAfterHandle:
			// the worker had not picked another task when the request was made
			allowed[n] = 0
			info.Labels = append(info.Labels, "stop:after-handle")
		case st.w.InFlight != nil:
			allowed[n] = 0
			info.Labels = append(info.Labels, "stop:in-handler")
		case st.backoff:
			allowed[n] = 0
			info.Labels = append(info.Labels, "stop:in-backoff")
		default:
			// idle on an empty queue: a task that arrives around the stop request may be picked once
			allowed[n] = 1
			info.Labels = append(info.Labels, "stop:idle")
		}
	}
	info.NonTrivial = nonEmpty
	if stoppedAfterHandle == "" {
		stopNow()
	}
	// tasks keep arriving after the stop request
	for _, n := range c.Queues {
		for i := 0; i < c.AfterStop; i++ {
			bt := qh.NewTask(fmt.Sprintf("late-%s-%d", n, i))
			bt.WithQueueName(n)
			qs[n].w.Q.AddLast(bt)
		}
	}
	starts := map[string]int{}
	// release everything that is in flight, then watch for further starts until every worker reports "stop"
	for _, n := range c.Queues {
		st := qs[n]
		if st.w.InFlight != nil {
			if err := st.w.Release(queue.TaskResult{Status: queue.Success}, false); err != nil {
				return info, err
			}
		}
	}
	deadline := time.Now().Add(qh.Ceiling)
	for {
		allStopped := true
		for _, n := range c.Queues {
			st := qs[n]
			if t, ok := st.w.PollStart(); ok {
				starts[n]++
				if starts[n] > allowed[n] {
					return info, fmt.Errorf("after the stop request queue %s started task %s (start #%d after stop, %d allowed: the queue was %s at the time of the request)", n, t.GetId(), starts[n], allowed[n], stateName(allowed[n], st))
				}
				st.w.InFlight = t
				_ = st.w.Release(queue.TaskResult{Status: queue.Success}, false)
			}
			if st.w.Q.GetStatus() != "stop" {
				allStopped = false
			}
		}
		if allStopped {
			break
		}
		if time.Now().After(deadline) {
			var sts []string
			for _, n := range c.Queues {
				sts = append(sts, n+"="+qs[n].w.Q.GetStatus())
			}
			return info, fmt.Errorf("queue workers did not terminate within %s after the stop request and after their handlers returned: %v", qh.Ceiling, sts)
		}
		time.Sleep(50 * time.Microsecond)
	}
	// workers are gone: nothing may start any more although tasks remain
	time.Sleep(2 * time.Millisecond)
	for _, n := range c.Queues {
		if t, ok := qs[n].w.PollStart(); ok {
			return info, fmt.Errorf("queue %s started task %s after its worker reported stop", n, t.GetId())
		}
	}
	// a queue that is created and started after the stop request (named queues are created while the operator
	// starts) must not run anything either
	lateStarted := make(chan string, 4)
	tqs.NewNamedQueue("created-after-stop", func(t task.Task) queue.TaskResult {
		lateStarted <- t.GetId()
		return queue.TaskResult{Status: queue.Success}
	})
	lq := tqs.GetByName("created-after-stop")
	qh.FastTimings(lq)
	lt := qh.NewTask("late-queue-task")
	lt.WithQueueName("created-after-stop")
	lq.AddLast(lt)
	lq.Start()
	lateDeadline := time.Now().Add(qh.Ceiling)
	for lq.GetStatus() != "stop" {
		select {
		case id := <-lateStarted:
			return info, fmt.Errorf("a queue created and started after the stop request executed task %s", id)
		default:
		}
		if time.Now().After(lateDeadline) {
			return info, fmt.Errorf("the worker of a queue created and started after the stop request did not terminate within %s (status %q)", qh.Ceiling, lq.GetStatus())
		}
		time.Sleep(50 * time.Microsecond)
	}
	select {
	case id := <-lateStarted:
		return info, fmt.Errorf("a queue created and started after the stop request executed task %s", id)
	default:
	}
	done := make(chan struct{})
	go func() { tqs.WaitStopWithTimeout(10 * time.Second); close(done) }()
	select {
	case <-done:
	case <-time.After(5 * time.Second):
		return info, fmt.Errorf("WaitStopWithTimeout did not return although every worker reports stop")
	}
	return info, nil
}

func stateName(allowed int, st *qstate) string {
	if st.backoff {
		return "waiting in a back-off delay"
	}
	if allowed == 0 && st.w.InFlight == nil {
		return "between two tasks: its handler had returned and it had not picked the next task"
	}
	if allowed == 0 {
		return "inside a handler"
	}
	return "idle"
}
