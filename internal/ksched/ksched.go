// Package ksched runs a real kube-events monitor under the cooperative scheduler: every
// interleaving of informer deliveries, snapshot reads and the unlock is a generated value.
// It is the deciding harness of C01 (no change lost between Synchronization and Events) and
// of the monitor-level part of C02 (snapshots equal the matching objects).
package ksched

import (
	"context"
	"fmt"
	"k8s.io/client-go/tools/cache"
	"sort"
	"strconv"
	"strings"
	"sync"
	"time"

	"github.com/deckhouse/deckhouse/pkg/log"
	corev1 "k8s.io/api/core/v1"
	metav1 "k8s.io/apimachinery/pkg/apis/meta/v1"
	"pgregory.net/rapid"

	"github.com/flant/kube-client/fake"
	kem "github.com/flant/shell-operator/pkg/kube_events_manager"
	kemtypes "github.com/flant/shell-operator/pkg/kube_events_manager/types"

	"verif/internal/ev"
	"verif/internal/kit"
	"verif/internal/sched"
)

type Obj struct {
	Ns    string `json:"ns"`
	Name  string `json:"name"`
	State int    `json:"state"`
}

type Op struct {
	K     string `json:"k"` // create modify delete nslabel
	Ns    string `json:"ns,omitempty"`
	Name  string `json:"name,omitempty"`
	State int    `json:"state,omitempty"`
}

type Pick struct {
	Bias bool `json:"b,omitempty"`
	V    int  `json:"v"`
}

type Case struct {
	NsMode    string   `json:"ns_mode"` // all static label
	Names     []string `json:"names,omitempty"`
	Events    []string `json:"events"`
	Filter    bool     `json:"filter"`
	KeepFull  bool     `json:"keep_full"`
	Initial   []Obj    `json:"initial"`
	LabelledN []string `json:"labelled_ns,omitempty"` // namespaces carrying the selected label at creation (label mode)
	Ops       []Op     `json:"ops"`
	HookSteps int      `json:"hook_steps"`
	Readers   []int    `json:"readers,omitempty"`
	Picks     []Pick   `json:"picks"`
}

var allNs = []string{"ns1", "ns2", "ns3"}
var allNames = []string{"a", "b", "c"}

const nStates = 6
const filterExpr = "{p: .data.p}"

func body(state int) map[string]any {
	return map[string]any{"data": map[string]any{"v": strconv.Itoa(state), "p": strconv.Itoa(state / 2)}}
}

func Gen(t *rapid.T) Case {
	c := Case{}
	c.NsMode = rapid.SampledFrom([]string{"all", "all", "static", "static", "label"}).Draw(t, "nsmode")
	if rapid.IntRange(0, 2).Draw(t, "names") == 0 {
		c.Names = allNames[:rapid.IntRange(1, 2).Draw(t, "nnames")]
	}
	if rapid.Bool().Draw(t, "allevents") {
		c.Events = []string{"Added", "Modified", "Deleted"}
	} else {
		c.Events = []string{}
		for _, e := range []string{"Added", "Modified", "Deleted"} {
			if rapid.IntRange(0, 3).Draw(t, "ev"+e) > 0 {
				c.Events = append(c.Events, e)
			}
		}
	}
	c.Filter = rapid.IntRange(0, 2).Draw(t, "filter") == 0
	c.KeepFull = rapid.IntRange(0, 3).Draw(t, "keep") > 0
	if c.NsMode == "label" {
		for _, ns := range allNs {
			if rapid.Bool().Draw(t, "lab"+ns) {
				c.LabelledN = append(c.LabelledN, ns)
			}
		}
	}
	nsPool := allNs[:2]
	if c.NsMode == "label" {
		nsPool = allNs
	}
	for _, ns := range nsPool {
		for _, n := range allNames {
			if rapid.IntRange(0, 3).Draw(t, "init") == 0 {
				c.Initial = append(c.Initial, Obj{ns, n, rapid.IntRange(0, nStates-1).Draw(t, "istate")})
			}
		}
	}
	nops := rapid.IntRange(1, 12).Draw(t, "nops")
	for i := 0; i < nops; i++ {
		k := rapid.SampledFrom([]string{"create", "create", "modify", "modify", "modify", "delete"}).Draw(t, "opk")
		if c.NsMode == "label" && rapid.IntRange(0, 5).Draw(t, "nsop") == 0 {
			k = "nslabel"
		}
		op := Op{K: k, Ns: rapid.SampledFrom(nsPool).Draw(t, "opns")}
		if k != "nslabel" {
			op.Name = rapid.SampledFrom(allNames).Draw(t, "opname")
			op.State = rapid.IntRange(0, nStates-1).Draw(t, "opstate")
		}
		c.Ops = append(c.Ops, op)
	}
	c.HookSteps = rapid.IntRange(0, 3).Draw(t, "hooksteps")
	for i, n := 0, rapid.IntRange(0, 2).Draw(t, "nreaders"); i < n; i++ {
		c.Readers = append(c.Readers, rapid.IntRange(1, 3).Draw(t, "nreads"))
	}
	np := rapid.IntRange(10, 150).Draw(t, "npicks")
	for i := 0; i < np; i++ {
		c.Picks = append(c.Picks, Pick{Bias: rapid.IntRange(0, 2).Draw(t, "bias") > 0, V: rapid.IntRange(0, 23).Draw(t, "pick")})
	}
	return c
}

// ---------------- world ----------------

type wev struct {
	typ   string
	key   string // ns/name
	state int
	// initial: an Added from the reflector's initial list (client-go sets isInInitialList);
	// for a Deleted: delivered as a cache.DeletedFinalStateUnknown tombstone (deletion seen through a relist)
	initial bool
}

type bufEntry struct {
	e         wev
	afterCopy map[*sched.Actor]bool // appended while this actor was between the cache copy and the buffer reset
}

type delivery struct {
	inf      *informer
	actor    *sched.Actor
	e        wev
	fires    bool
	flagRead bool
	flagSeen bool
}

type informer struct {
	key     string // ns + "/" + name, as in the yield keys
	ns      string
	name    string
	real    kem.VerifInformer
	dynamic bool
	started bool
	fifo    []wev
	cur     *delivery
	// reference model
	cache     map[string]int
	delivered map[string][]wev
	list0     map[string]int
	// model of the lock/buffer mechanism, used only to attribute losses to windows
	enabled bool
	buf     []bufEntry
}

type recorded struct {
	typ      string
	key      string
	proj     string
	unlocked bool
}

type snapshotCheck struct {
	who    string
	result []kemtypes.ObjectAndFilterResult
	want   map[string]int
}

// Violation kinds
const (
	KLost      = "C01:change-lost-or-misordered"
	KEarly     = "C01:event-before-unlock"
	KSnapshot  = "C02:snapshot-content"
	KStructure = "C02:snapshot-structure"
	KFinal     = "C02:final-state"
)

type Violation struct {
	Kind   string
	Detail string
	// Reordered: the Events handed over are exactly the required ones, in another order
	Reordered bool
	// Losses: kinds of tracked drops that explain every missing event (C01 only; empty = unexplained)
	Losses []string
}

type Result struct {
	Info       ev.Info
	Violations []Violation
}

type world struct {
	c        Case
	fc       *fake.Cluster
	s        *sched.S
	mon      kemMonitor
	cluster  map[string]int
	labelled map[string]bool
	infs     map[string]*informer
	order    []string

	unlockEntered bool
	monFlag       bool // model of monitor.eventsEnabled
	rec           []recorded
	drops         map[string][]wev // loss kind -> events
	snaps         []snapshotCheck
	pending       map[*sched.Actor]map[string]int
	inGco         map[*sched.Actor]*informer
	isReader      map[*sched.Actor]bool
	sync          *sched.Actor
	readers       []*sched.Actor
	nsActors      []*sched.Actor
	nsOf          map[*sched.Actor]string
	syncView      []kemtypes.ObjectAndFilterResult
	viewTaken     bool
	running       bool
	opIdx         int
	labels        map[string]int
	deliveryOf    map[*sched.Actor]*delivery
	from          map[*sched.Actor]string
	cbKey         map[*sched.Actor]string
	recMu         sync.Mutex
}

type kemMonitor interface {
	Snapshot() []kemtypes.ObjectAndFilterResult
	EnableKubeEventCb()
	VerifInformers() []kem.VerifInformer
	VerifNamespaceAdded(*corev1.Namespace)
}

func proj(c Case, state int) string {
	if c.Filter {
		return "p" + strconv.Itoa(state/2)
	}
	return "s" + strconv.Itoa(state)
}

// obs is what a hook can observe of a state: nothing but the fact of a change when neither the full
// object nor a filter result is kept.
func obs(c Case, state int) string {
	if !c.Filter && !c.KeepFull {
		return "?"
	}
	return proj(c, state)
}

func entryState(o kemtypes.ObjectAndFilterResult) (int, bool) {
	if o.Object == nil {
		return 0, false
	}
	d, _ := o.Object.Object["data"].(map[string]any)
	v, _ := d["v"].(string)
	n, err := strconv.Atoi(v)
	return n, err == nil
}

// entryProj is the projection an entry carries: from the full object when present, else from the filter result.
func entryProj(c Case, o kemtypes.ObjectAndFilterResult) string {
	if c.Filter {
		if m, ok := o.FilterResult.(map[string]any); ok {
			if p, ok := m["p"].(string); ok {
				return "p" + p
			}
		}
		return "p?"
	}
	if st, ok := entryState(o); ok {
		return "s" + strconv.Itoa(st)
	}
	return "?"
}

func contains(l []string, s string) bool {
	for _, x := range l {
		if x == s {
			return true
		}
	}
	return false
}

func (w *world) inScope(inf *informer, key string) bool {
	parts := strings.SplitN(key, "/", 2)
	if inf.ns != "" && inf.ns != parts[0] {
		return false
	}
	if inf.name != "" && inf.name != parts[1] {
		return false
	}
	return true
}

// matches: the binding selects this object (namespace and name selection).
func (w *world) matches(key string) bool {
	parts := strings.SplitN(key, "/", 2)
	if len(w.c.Names) > 0 && !contains(w.c.Names, parts[1]) {
		return false
	}
	switch w.c.NsMode {
	case "static":
		return parts[0] == "ns1" || parts[0] == "ns2"
	case "label":
		return w.labelled[parts[0]]
	}
	return true
}

func (w *world) syncInformers() {
	for _, vi := range w.mon.VerifInformers() {
		k := vi.Namespace + "/" + vi.Name
		if _, ok := w.infs[k]; ok {
			continue
		}
		inf := &informer{key: k, ns: vi.Namespace, name: vi.Name, real: vi, dynamic: vi.Dynamic, cache: map[string]int{}, delivered: map[string][]wev{}, list0: map[string]int{}}
		for ck, st := range w.cluster {
			if w.inScope(inf, ck) {
				inf.cache[ck] = st
				if w.running {
					// an informer created while the binding is live: its objects become matching now,
					// which is a change the hook has to learn about
					inf.delivered[ck] = append(inf.delivered[ck], wev{"Added", ck, st, false})
					w.drops["dynamic-informer-initial-list"] = append(w.drops["dynamic-informer-initial-list"], wev{"Added", ck, st, false})
				} else {
					inf.list0[ck] = st
				}
			}
		}
		w.infs[k] = inf
		w.order = append(w.order, k)
	}
}

func (w *world) label(l string) { w.labels[l]++ }

func (w *world) applyOp(op Op) error {
	key := op.Ns + "/" + op.Name
	_, exists := w.cluster[key]
	var e wev
	switch op.K {
	case "nslabel":
		if w.labelled[op.Ns] {
			return nil
		}
		nsObj, err := w.fc.Client.CoreV1().Namespaces().Get(context.TODO(), op.Ns, metav1.GetOptions{})
		if err != nil {
			return err
		}
		nsObj.Labels = map[string]string{"watch": "yes"}
		if _, err := w.fc.Client.CoreV1().Namespaces().Update(context.TODO(), nsObj, metav1.UpdateOptions{}); err != nil {
			return err
		}
		w.labelled[op.Ns] = true
		w.label("ns-labelled-after-start")
		ns := op.Ns
		var a *sched.Actor
		a = w.s.Spawn("NS "+ns, func() {
			w.mon.VerifNamespaceAdded(nsObj)
		})
		w.nsActors = append(w.nsActors, a)
		w.nsOf[a] = ns
		return nil
	case "create", "modify":
		if exists {
			if err := kit.Update(w.fc, kit.Obj(op.Ns, op.Name, body(op.State))); err != nil {
				return err
			}
			e = wev{"Modified", key, op.State, false}
		} else {
			if err := kit.Create(w.fc, kit.Obj(op.Ns, op.Name, body(op.State))); err != nil {
				return err
			}
			e = wev{"Added", key, op.State, false}
		}
		w.cluster[key] = op.State
	case "delete":
		if !exists {
			return nil
		}
		if err := kit.Delete(w.fc, op.Ns, op.Name); err != nil {
			return err
		}
		// a third of the deletions reach the informers as tombstones (the op's otherwise unused state decides)
		e = wev{"Deleted", key, w.cluster[key], op.State%3 == 0}
		delete(w.cluster, key)
	}
	for _, k := range w.order {
		inf := w.infs[k]
		if inf.started && w.inScope(inf, key) {
			inf.fifo = append(inf.fifo, e)
		}
	}
	return nil
}

// startInformer models the reflector start: list again, Added for what exists, then watch.
func (w *world) startInformer(inf *informer) {
	inf.started = true
	var keys []string
	for k := range w.cluster {
		if w.inScope(inf, k) {
			keys = append(keys, k)
		}
	}
	sort.Strings(keys)
	for _, k := range keys {
		inf.fifo = append(inf.fifo, wev{"Added", k, w.cluster[k], true})
	}
	for k := range inf.cache {
		if _, ok := w.cluster[k]; !ok {
			w.label("deleted-between-list-and-informer-start")
		}
	}
}

// onArrive applies the model effects of the slice that just ended: the actor ran from point `from`
// to its current point (or to its end when done).
func (w *world) onArrive(a *sched.Actor, from string, done bool) {
	to := a.Point
	if done {
		to = "<done>"
	}
	if d, ok := w.deliveryOf[a]; ok {
		w.deliveryArrive(d, from, to, done)
		return
	}
	if done {
		return
	}
	switch to {
	case "ri.getCachedObjects.betweenCopyAndReset":
		// the cache was copied in this slice (the buffer lock is held in a correct tree)
		inf := w.infs[a.Keys[0]+"/"+a.Keys[1]]
		if inf == nil {
			return
		}
		if pv, ok := w.pending[a]; ok {
			for k, st := range inf.cache {
				pv[k] = st
			}
		}
		w.inGco[a] = inf
	case "ri.getCachedObjects.afterRead":
		// the buffer reset happened in this slice
		inf := w.infs[a.Keys[0]+"/"+a.Keys[1]]
		if inf == nil {
			return
		}
		delete(w.inGco, a)
		if !inf.enabled {
			for _, be := range inf.buf {
				switch {
				case be.afterCopy[a]:
					w.drops["snapshot-copy-reset-window"] = append(w.drops["snapshot-copy-reset-window"], be.e)
				case w.isReader[a]:
					w.drops["second-reader-drops-buffer"] = append(w.drops["second-reader-drops-buffer"], be.e)
				case a != w.sync:
					w.drops["other-reader-drops-buffer"] = append(w.drops["other-reader-drops-buffer"], be.e)
				}
			}
			inf.buf = nil
		}
	case "cb.enter":
		// replay of a buffered event by the unlock: the informer's flag was flipped at the start of the replay
		if a == w.sync {
			if inf := w.servingInformer(w.cbKey[a]); inf != nil {
				inf.enabled = true
			}
		}
	case "mon.EnableKubeEventCb.nextInformer":
		if inf := w.infs[a.Keys[0]+"/"+a.Keys[1]]; inf != nil {
			inf.enabled = true
			inf.buf = nil // replayed under the lock
		}
	case "mon.nsAdded.afterStore":
		w.syncInformers()
	}
	if a == w.sync && (to == "mon.EnableKubeEventCb.setFlag" || from == "mon.EnableKubeEventCb.setFlag") {
		// the events-enabled flag of the monitor is set in the slice that ends at this point
		w.monFlag = true
	}
}

// nsArrive: the namespace-added actor finished: it read the monitor flag in its last slice.
func (w *world) nsDone(a *sched.Actor, from string) {
	ns, ok := w.nsOf[a]
	if !ok || from != "mon.nsAdded.afterStore" {
		return
	}
	for _, k := range w.order {
		inf := w.infs[k]
		if inf.dynamic && inf.ns == ns {
			if w.monFlag {
				inf.enabled = true
			} else if w.sync.Point == "mon.EnableKubeEventCb.beforeFlag" || w.sync.Done {
				if !inf.enabled {
					w.label("dynamic-ns-missed-by-unlock")
					w.drops["dynamic-namespace-enable-window"] = append(w.drops["dynamic-namespace-enable-window"], wev{"*", ns + "/*", 0, false})
				}
			}
		}
	}
}

func (w *world) deliveryArrive(d *delivery, from, to string, done bool) {
	inf := d.inf
	e := d.e
	if from == "" {
		// first slice: the cache was updated
		prev, had := inf.cache[e.key]
		if e.typ == "Deleted" {
			delete(inf.cache, e.key)
		} else {
			inf.cache[e.key] = e.state
		}
		inf.delivered[e.key] = append(inf.delivered[e.key], e)
		d.fires = contains(w.c.Events, e.typ) && (e.typ == "Deleted" || !had || proj(w.c, prev) != proj(w.c, e.state))
		if w.sync.Started && !w.sync.Done {
			w.label("delivery-while-sync-in-progress")
		}
	}
	switch {
	case to == "ri.handleWatchEvent.beforePut":
		d.flagRead, d.flagSeen = true, true
	case to == "ri.handleWatchEvent.beforeAppend":
		d.flagRead, d.flagSeen = false, true
	case from == "ri.handleWatchEvent.beforeAppend":
		// the event was appended to the buffer in this slice
		if inf.enabled {
			w.label("append-after-unlock")
			w.drops["flag-read-append-window"] = append(w.drops["flag-read-append-window"], e)
		} else {
			be := bufEntry{e: e, afterCopy: map[*sched.Actor]bool{}}
			for ga, gi := range w.inGco {
				if gi == inf {
					be.afterCopy[ga] = true
					w.label("append-inside-copy-reset-window")
				}
			}
			inf.buf = append(inf.buf, be)
		}
	}
	if done {
		inf.cur = nil
		delete(w.deliveryOf, d.actor)
	}
}

// run resumes (or starts) an actor and collects the result of its slice.
func (w *world) run(a *sched.Actor) {
	if !a.IsBlocked {
		w.from[a] = ""
		if a.Started {
			w.from[a] = a.Point
		}
	}
	w.collect(a, w.s.StepB(a))
}

func (w *world) collect(a *sched.Actor, st sched.Status) {
	if st == sched.Blocked {
		w.label("actor-blocked-on-lock")
		return
	}
	if a.Panic != "" {
		panic("actor " + a.Name + " panicked: " + a.Panic)
	}
	from := w.from[a]
	w.onArrive(a, from, st == sched.Done)
	if st == sched.Done {
		w.nsDone(a, from)
	}
}

// pollBlocked settles actors that were blocked on a lock: each has either arrived at its next point
// (collected here) or is verifiably still waiting for the lock.
func (w *world) pollBlocked() {
	for _, a := range w.allActors() {
		if a.IsBlocked {
			if st := w.s.Settle(a); st != sched.Blocked {
				w.collect(a, st)
			}
		}
	}
}

// holderPoints are yield points inside a critical section: an actor parked there holds a lock.
var holderPoints = map[string]bool{"ri.getCachedObjects.betweenCopyAndReset": true, "ri.handleWatchEvent.beforeAppend": true, "cb.enter": true}

// restrictToHolders: while an actor is blocked on a lock only the lock holders are scheduled, so that at
// most one actor waits for a lock at a time (which actor gets a contended lock first is not under control).
func (w *world) restrictToHolders(chs []choice) []choice {
	if w.anyBlocked() == nil {
		return chs
	}
	var out []choice
	for _, ch := range chs {
		var a *sched.Actor
		switch ch.kind {
		case "inf":
			if ch.inf.cur != nil {
				a = ch.inf.cur.actor
			}
		case "sync", "reader", "ns":
			a = ch.a
		}
		if a != nil && a.Started && !a.Done && holderPoints[a.Point] {
			out = append(out, ch)
		}
	}
	if len(out) == 0 {
		return chs
	}
	return out
}

func (w *world) allActors() []*sched.Actor {
	out := []*sched.Actor{w.sync}
	out = append(out, w.readers...)
	out = append(out, w.nsActors...)
	for _, k := range w.order {
		if d := w.infs[k].cur; d != nil {
			out = append(out, d.actor)
		}
	}
	return out
}

func (w *world) stepDelivery(inf *informer) {
	d := inf.cur
	if d == nil {
		e := inf.fifo[0]
		inf.fifo = inf.fifo[1:]
		parts := strings.SplitN(e.key, "/", 2)
		obj := kit.Obj(parts[0], parts[1], body(e.state))
		d = &delivery{e: e, inf: inf}
		d.actor = w.s.Spawn("INF "+inf.key, func() {
			switch e.typ {
			case "Added":
				inf.real.OnAdd(obj, e.initial)
			case "Modified":
				inf.real.OnUpdate(obj, obj)
			case "Deleted":
				if e.initial {
					inf.real.OnDelete(cache.DeletedFinalStateUnknown{Key: e.key, Obj: obj})
				} else {
					inf.real.OnDelete(obj)
				}
			}
		})
		inf.cur = d
		w.deliveryOf[d.actor] = d
	}
	w.run(d.actor)
}

type choice struct {
	kind string // op start inf sync reader ns
	inf  *informer
	a    *sched.Actor
}

func (w *world) enabledChoices() []choice {
	var out []choice
	if w.opIdx < len(w.c.Ops) {
		out = append(out, choice{kind: "op"})
	}
	for _, k := range w.order {
		inf := w.infs[k]
		if !inf.started {
			out = append(out, choice{kind: "start", inf: inf})
			continue
		}
		if inf.cur != nil {
			if !inf.cur.actor.IsBlocked {
				out = append(out, choice{kind: "inf", inf: inf})
			}
		} else if len(inf.fifo) > 0 {
			out = append(out, choice{kind: "inf", inf: inf})
		}
	}
	if !w.sync.Done && !w.sync.IsBlocked {
		out = append(out, choice{kind: "sync", a: w.sync})
	}
	for _, r := range w.readers {
		if !r.Done && !r.IsBlocked {
			out = append(out, choice{kind: "reader", a: r})
		}
	}
	for _, n := range w.nsActors {
		if !n.Done && !n.IsBlocked {
			out = append(out, choice{kind: "ns", a: n})
		}
	}
	return out
}

// waitAnyBlocked waits until one of the blocked actors arrives at its next point (it was released by
// the slice that just ended and needs a moment to get there).
func (w *world) waitAnyBlocked(d time.Duration) bool {
	deadline := time.Now().Add(d)
	for {
		for _, a := range w.allActors() {
			if a.IsBlocked {
				if st := w.s.Poll(a); st != sched.Blocked {
					w.collect(a, st)
					return true
				}
			}
		}
		if time.Now().After(deadline) {
			return false
		}
		time.Sleep(20 * time.Microsecond)
	}
}

func (w *world) anyBlocked() *sched.Actor {
	for _, a := range w.allActors() {
		if a.IsBlocked {
			return a
		}
	}
	return nil
}

func (w *world) perform(ch choice) error {
	switch ch.kind {
	case "op":
		op := w.c.Ops[w.opIdx]
		w.opIdx++
		return w.applyOp(op)
	case "start":
		w.startInformer(ch.inf)
	case "inf":
		w.stepDelivery(ch.inf)
	default:
		w.run(ch.a)
	}
	return nil
}

var DebugT [4]time.Duration

// Run executes one case and returns every violation found, tagged by kind.
func Run(c Case) (Result, error) {
	res := Result{}
	w := &world{c: c, cluster: map[string]int{}, labelled: map[string]bool{}, infs: map[string]*informer{}, drops: map[string][]wev{},
		deliveryOf: map[*sched.Actor]*delivery{}, from: map[*sched.Actor]string{}, cbKey: map[*sched.Actor]string{},
		pending: map[*sched.Actor]map[string]int{}, inGco: map[*sched.Actor]*informer{}, isReader: map[*sched.Actor]bool{}, nsOf: map[*sched.Actor]string{}, labels: map[string]int{}}
	w.fc = kit.NewCluster(allNs...)
	for _, o := range c.Initial {
		k := o.Ns + "/" + o.Name
		if _, dup := w.cluster[k]; dup {
			continue
		}
		if err := kit.Create(w.fc, kit.Obj(o.Ns, o.Name, body(o.State))); err != nil {
			return res, fmt.Errorf("harness: %v", err)
		}
		w.cluster[k] = o.State
	}
	if c.NsMode == "label" {
		for _, ns := range c.LabelledN {
			nsObj, err := w.fc.Client.CoreV1().Namespaces().Get(context.TODO(), ns, metav1.GetOptions{})
			if err != nil {
				return res, fmt.Errorf("harness: %v", err)
			}
			nsObj.Labels = map[string]string{"watch": "yes"}
			if _, err := w.fc.Client.CoreV1().Namespaces().Update(context.TODO(), nsObj, metav1.UpdateOptions{}); err != nil {
				return res, fmt.Errorf("harness: %v", err)
			}
			w.labelled[ns] = true
		}
	}
	cfg := &kem.MonitorConfig{ApiVersion: "v1", Kind: "ConfigMap", KeepFullObjectsInMemory: c.KeepFull}
	cfg.Metadata.MonitorId = "mon"
	cfg.Metadata.DebugName = "mon"
	ets := []kemtypes.WatchEventType{}
	for _, e := range c.Events {
		ets = append(ets, kemtypes.WatchEventType(e))
	}
	cfg.WithEventTypes(ets)
	if c.Filter {
		cfg.JqFilter = filterExpr
	}
	if len(c.Names) > 0 {
		cfg.NameSelector = &kemtypes.NameSelector{MatchNames: c.Names}
		if len(c.Names)%2 == 0 || len(c.Ops)%2 == 0 {
			// together with a fieldSelector of the binding's own (true for every object here): each per-name informer
			// gets the binding's requirements plus its own name
			cfg.FieldSelector = &kemtypes.FieldSelector{MatchExpressions: []kemtypes.FieldSelectorRequirement{{Field: "metadata.namespace", Operator: "!=", Value: "nowhere"}}}
		}
	}
	switch c.NsMode {
	case "static":
		cfg.NamespaceSelector = &kemtypes.NamespaceSelector{NameSelector: &kemtypes.NameSelector{MatchNames: []string{"ns1", "ns2"}}}
	case "label":
		cfg.NamespaceSelector = &kemtypes.NamespaceSelector{LabelSelector: &metav1.LabelSelector{MatchLabels: map[string]string{"watch": "yes"}}}
	}
	w.s = sched.New()
	defer w.s.Close()
	mon := kem.NewMonitor(context.Background(), w.fc.Client, kit.NopMetrics{}, cfg, func(e kemtypes.KubeEvent) {
		r := recorded{}
		if len(e.WatchEvents) == 1 {
			r.typ = string(e.WatchEvents[0])
		}
		if len(e.Objects) == 1 {
			o := e.Objects[0]
			parts := strings.Split(o.Metadata.ResourceId, "/")
			if len(parts) == 3 {
				r.key = parts[0] + "/" + parts[2]
			}
			r.proj = entryProj(c, o)
		}
		// the hand-over point of an Event is a scheduling point: whoever delivers may be overtaken here
		if self := w.s.Self(); self != nil {
			w.recMu.Lock()
			w.cbKey[self] = r.key
			w.recMu.Unlock()
			w.s.Yield("cb.enter")
		}
		w.recMu.Lock()
		r.unlocked = w.unlockEntered
		w.rec = append(w.rec, r)
		w.recMu.Unlock()
	}, log.NewNop())
	if err := mon.CreateInformers(); err != nil {
		return res, fmt.Errorf("harness: CreateInformers: %v", err)
	}
	mon.Start(context.Background()) // every informer start is skipped under the scheduler
	w.mon = mon
	w.syncInformers()
	w.running = true

	snapshotAs := func(a **sched.Actor, who string, store *[]kemtypes.ObjectAndFilterResult) {
		w.pending[*a] = map[string]int{}
		r := mon.Snapshot()
		want := w.pending[*a]
		delete(w.pending, *a)
		w.snaps = append(w.snaps, snapshotCheck{who: who, result: r, want: want})
		if store != nil {
			*store = r
		}
	}
	w.sync = w.s.Spawn("SYNC", func() {
		snapshotAs(&w.sync, "SYNC", &w.syncView)
		w.viewTaken = true
		for i := 0; i < c.HookSteps; i++ {
			w.s.Yield("harness.syncHookRunning")
		}
		w.recMu.Lock()
		w.unlockEntered = true
		w.recMu.Unlock()
		mon.EnableKubeEventCb()
	})
	for i, n := range c.Readers {
		i, n := i, n
		var ra *sched.Actor
		ra = w.s.Spawn(fmt.Sprintf("READER%d", i), func() {
			for j := 0; j < n; j++ {
				snapshotAs(&ra, fmt.Sprintf("READER%d", i), nil)
				w.s.Yield("harness.readerBetweenReads")
			}
		})
		w.isReader[ra] = true
		w.readers = append(w.readers, ra)
	}

	tSched := time.Now()
	// ---- generated schedule ----
	for _, p := range c.Picks {
		w.pollBlocked()
		chs := w.restrictToHolders(w.enabledChoices())
		if len(chs) == 0 {
			if w.anyBlocked() != nil {
				if !w.waitAnyBlocked(2 * time.Second) {
					break
				}
				continue
			}
			break
		}
		pool := chs
		if p.Bias {
			// while SYNC is in progress, favour the steps that can race with it
			var fav []choice
			inWindow := w.sync.Started && !w.sync.Done
			for _, ch := range chs {
				if inWindow && (ch.kind == "inf" || ch.kind == "reader" || ch.kind == "ns" || ch.kind == "op") {
					fav = append(fav, ch)
				}
			}
			if len(fav) > 0 {
				pool = fav
			}
		}
		if err := w.perform(pool[p.V%len(pool)]); err != nil {
			return res, fmt.Errorf("harness: %v", err)
		}
	}
	DebugT[0] += time.Since(tSched)
	tDrain := time.Now()
	// ---- drain deterministically: finish SYNC and readers, apply remaining ops, start and drain informers ----
	stuck := 0
	for guard := 0; guard < 100000; guard++ {
		w.pollBlocked()
		chs := w.restrictToHolders(w.enabledChoices())
		if len(chs) == 0 {
			if b := w.anyBlocked(); b != nil {
				if !w.waitAnyBlocked(2 * time.Second) {
					stuck++
					if stuck > 2 {
						return res, fmt.Errorf("harness: actor %s stays blocked on a lock although every other actor has finished or is blocked too (deadlock in the code under test?)", b.Name)
					}
				}
				continue
			}
			break
		}
		// prefer actors over new cluster operations so that windows close first
		pickIdx := 0
		for i, ch := range chs {
			if ch.kind != "op" {
				pickIdx = i
				break
			}
		}
		if err := w.perform(chs[pickIdx]); err != nil {
			return res, fmt.Errorf("harness: %v", err)
		}
	}
	DebugT[1] += time.Since(tDrain)
	// final snapshot by the test goroutine (not an actor: yields pass through)
	final := mon.Snapshot()
	res.Violations = append(res.Violations, w.checkC01()...)
	res.Violations = append(res.Violations, w.checkC02(final)...)
	for l := range w.labels {
		res.Info.Labels = append(res.Info.Labels, l)
	}
	sort.Strings(res.Info.Labels)
	res.Info.NonTrivial = w.labels["delivery-while-sync-in-progress"] > 0
	return res, nil
}

// ---------------- oracles ----------------

func (w *world) servingInformer(key string) *informer {
	parts := strings.SplitN(key, "/", 2)
	for _, k := range w.order {
		inf := w.infs[k]
		if !w.inScope(inf, key) {
			continue
		}
		if inf.dynamic && inf.ns != parts[0] {
			continue
		}
		return inf
	}
	return nil
}

func (w *world) checkC01() []Violation {
	var out []Violation
	c := w.c
	for _, r := range w.rec {
		if !r.unlocked {
			out = append(out, Violation{Kind: KEarly, Detail: fmt.Sprintf("event %s %s was handed over before the unlock that follows the Synchronization began", r.typ, r.key)})
			break
		}
	}
	view := map[string]string{}
	for _, o := range w.syncView {
		parts := strings.Split(o.Metadata.ResourceId, "/")
		if len(parts) == 3 {
			view[parts[0]+"/"+parts[2]] = entryProj(c, o)
		}
	}
	// all objects that ever existed at an informer
	keys := map[string]bool{}
	for _, k := range w.order {
		inf := w.infs[k]
		for ok := range inf.list0 {
			keys[ok] = true
		}
		for ok := range inf.delivered {
			keys[ok] = true
		}
	}
	got := map[string][]string{}
	for _, r := range w.rec {
		got[r.key] = append(got[r.key], r.typ+":"+r.proj)
	}
	var ks []string
	for k := range keys {
		ks = append(ks, k)
	}
	sort.Strings(ks)
	for _, key := range ks {
		inf := w.servingInformer(key)
		if inf == nil {
			continue
		}
		// state sequence: e0 = initial list, then deliveries
		type st struct {
			present bool
			proj    string
			obs     string
		}
		seq := []st{{}}
		if s0, ok := inf.list0[key]; ok {
			seq[0] = st{true, proj(c, s0), obs(c, s0)}
		}
		evs := inf.delivered[key]
		for _, e := range evs {
			if e.typ == "Deleted" {
				seq = append(seq, st{})
			} else {
				seq = append(seq, st{true, proj(c, e.state), obs(c, e.state)})
			}
		}
		filtered := func(from int) []string { // events e_{from+1..n} that must reach the hook
			var l []string
			for i := from + 1; i <= len(evs); i++ {
				e := evs[i-1]
				if !contains(c.Events, e.typ) {
					continue
				}
				if e.typ == "Deleted" {
					l = append(l, "Deleted:"+obs(c, e.state))
					continue
				}
				if !seq[i-1].present || seq[i-1].proj != seq[i].proj {
					l = append(l, e.typ+":"+seq[i].obs)
				}
			}
			return l
		}
		x, inView := view[key]
		ok := false
		d := got[key]
		for k := 0; k <= len(evs) && !ok; k++ {
			if seq[k].present != inView || (inView && seq[k].obs != x) {
				continue
			}
			for k2 := 0; k2 <= k; k2++ {
				if strings.Join(filtered(k2), ",") == strings.Join(d, ",") {
					ok = true
					break
				}
			}
		}
		if ok {
			continue
		}
		// is it the right multiset of Events in the wrong order?
		reordered := false
		for k2 := 0; k2 <= len(evs) && !reordered; k2++ {
			a, b := append([]string{}, filtered(k2)...), append([]string{}, d...)
			if strings.Join(a, ",") == strings.Join(b, ",") {
				continue // the same sequence: the mismatch lies elsewhere (a loss)
			}
			sort.Strings(a)
			sort.Strings(b)
			if len(a) > 1 && strings.Join(a, ",") == strings.Join(b, ",") {
				reordered = true
			}
		}
		// explain: are all missing events covered by tracked drops?
		v := Violation{Reordered: reordered, Kind: KLost, Detail: fmt.Sprintf("object %s: Synchronization view shows %q (present=%v), changes delivered to the informer afterwards/around it %v (initial list %v), Events handed over %v: no cut of the history makes view+Events reproduce the changes in order", key, x, inView, describe(c, evs), seq[0], d)}
		kinds := map[string]bool{}
		for kind, es := range w.drops {
			for _, e := range es {
				if e.key == key || (e.typ == "*" && strings.HasPrefix(key, strings.TrimSuffix(e.key, "*"))) {
					kinds[kind] = true
				}
			}
		}
		if inf.dynamic && !inf.enabled && w.sync.Done {
			// the unlock finished but this informer of a namespace that appeared meanwhile was never unlocked
			kinds["dynamic-namespace-enable-window"] = true
		}
		for k := range kinds {
			v.Losses = append(v.Losses, k)
		}
		sort.Strings(v.Losses)
		out = append(out, v)
	}
	return out
}

func describe(c Case, evs []wev) []string {
	var l []string
	for _, e := range evs {
		l = append(l, e.typ+":"+proj(c, e.state))
	}
	return l
}

func (w *world) checkC02(final []kemtypes.ObjectAndFilterResult) []Violation {
	var out []Violation
	c := w.c
	seenOrder := map[string]bool{} // "a<b" pairs seen
	checkStructure := func(who string, l []kemtypes.ObjectAndFilterResult) {
		ids := map[string]bool{}
		var prev string
		var idl []string
		for i, o := range l {
			id := o.Metadata.ResourceId
			idl = append(idl, id)
			if ids[id] {
				out = append(out, Violation{Kind: KStructure, Detail: fmt.Sprintf("%s snapshot lists %s twice", who, id)})
			}
			ids[id] = true
			if c.KeepFull && i > 0 {
				parts := strings.Split(id, "/")
				cur := parts[0] + "\x00" + parts[len(parts)-1]
				if cur < prev {
					out = append(out, Violation{Kind: KStructure, Detail: fmt.Sprintf("%s snapshot is not ordered by namespace and name: %v", who, idl)})
				}
			}
			parts := strings.Split(id, "/")
			prev = parts[0] + "\x00" + parts[len(parts)-1]
			if (o.Object != nil) != c.KeepFull {
				out = append(out, Violation{Kind: KStructure, Detail: fmt.Sprintf("%s snapshot entry %s: full object present=%v, keepFullObjectsInMemory=%v", who, id, o.Object != nil, c.KeepFull)})
			}
			if st, ok := entryState(o); ok && c.Filter {
				if entryProj(c, o) != proj(c, st) {
					out = append(out, Violation{Kind: KStructure, Detail: fmt.Sprintf("%s snapshot entry %s: filterResult %s does not belong to its object state %d", who, id, entryProj(c, o), st)})
				}
			}
			if !c.Filter && o.FilterResult != nil {
				out = append(out, Violation{Kind: KStructure, Detail: fmt.Sprintf("%s snapshot entry %s carries a filterResult although the binding has no jqFilter", who, id)})
			}
		}
		for i := range idl {
			for j := i + 1; j < len(idl); j++ {
				if seenOrder[idl[j]+"<"+idl[i]] {
					out = append(out, Violation{Kind: KStructure, Detail: fmt.Sprintf("objects %s and %s appear in opposite orders in two snapshots", idl[i], idl[j])})
				}
				seenOrder[idl[i]+"<"+idl[j]] = true
			}
		}
	}
	content := func(l []kemtypes.ObjectAndFilterResult) map[string]string {
		m := map[string]string{}
		for _, o := range l {
			parts := strings.Split(o.Metadata.ResourceId, "/")
			if len(parts) == 3 {
				m[parts[0]+"/"+parts[2]] = entryProj(c, o)
			}
		}
		return m
	}
	for _, sc := range w.snaps {
		checkStructure(sc.who, sc.result)
		want := map[string]string{}
		for k, st := range sc.want {
			want[k] = obs(c, st)
		}
		if g := content(sc.result); fmt.Sprint(g) != fmt.Sprint(want) {
			out = append(out, Violation{Kind: KSnapshot, Detail: fmt.Sprintf("%s snapshot shows %v, the informer caches folded from the initial lists and the delivered events hold %v", sc.who, g, want)})
		}
	}
	checkStructure("final", final)
	want := map[string]string{}
	for k, st := range w.cluster {
		if w.matches(k) {
			want[k] = obs(c, st)
		}
	}
	if g := content(final); fmt.Sprint(g) != fmt.Sprint(want) {
		v := Violation{Kind: KFinal, Detail: fmt.Sprintf("after the cluster became quiet the snapshot shows %v, the matching objects of the cluster are %v", g, want)}
		if w.labels["deleted-between-list-and-informer-start"] > 0 {
			v.Losses = []string{"deleted-between-list-and-informer-start"}
		}
		out = append(out, v)
	}
	return out
}
