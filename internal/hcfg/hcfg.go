// Package hcfg describes hook configurations (configVersion v1) as plain data, renders them
// as JSON or YAML and computes the effective values the documentation promises.
package hcfg

import (
	"encoding/json"
	"sort"

	"gopkg.in/yaml.v3"
)

type Sched struct {
	Name         string   `json:"name,omitempty"`
	Crontab      string   `json:"crontab"`
	AllowFailure *bool    `json:"allowFailure,omitempty"`
	Includes     []string `json:"includeSnapshotsFrom,omitempty"`
	Queue        string   `json:"queue,omitempty"`
	Group        string   `json:"group,omitempty"`
}

type LabelSel struct {
	MatchLabels      map[string]string `json:"matchLabels,omitempty"`
	MatchExpressions []LabelExpr       `json:"matchExpressions,omitempty"`
}

type LabelExpr struct {
	Key      string   `json:"key"`
	Operator string   `json:"operator"`
	Values   []string `json:"values,omitempty"`
}

type NameSel struct {
	MatchNames []string `json:"matchNames"`
}

type FieldExpr struct {
	Field    string `json:"field"`
	Operator string `json:"operator"`
	Value    string `json:"value"`
}

type FieldSel struct {
	MatchExpressions []FieldExpr `json:"matchExpressions"`
}

type NsSel struct {
	NameSelector  *NameSel  `json:"nameSelector,omitempty"`
	LabelSelector *LabelSel `json:"labelSelector,omitempty"`
}

type Kube struct {
	Name       string    `json:"name,omitempty"`
	ApiVersion string    `json:"apiVersion,omitempty"`
	Kind       string    `json:"kind"`
	Events     *[]string `json:"executeHookOnEvent,omitempty"`
	// WatchEvents is the deprecated spelling still accepted by the v1 schema; executeHookOnEvent has priority
	WatchEvents *[]string `json:"watchEvent,omitempty"`
	OnSync      *bool     `json:"executeHookOnSynchronization,omitempty"`
	KeepFull    *bool     `json:"keepFullObjectsInMemory,omitempty"`
	NameSel     *NameSel  `json:"nameSelector,omitempty"`
	LabelSel    *LabelSel `json:"labelSelector,omitempty"`
	FieldSel    *FieldSel `json:"fieldSelector,omitempty"`
	Namespace   *NsSel    `json:"namespace,omitempty"`
	JqFilter    string    `json:"jqFilter,omitempty"`
	AllowFail   *bool     `json:"allowFailure,omitempty"`
	Includes    []string  `json:"includeSnapshotsFrom,omitempty"`
	Queue       string    `json:"queue,omitempty"`
	Group       string    `json:"group,omitempty"`
}

type AdmRule struct {
	Operations  []string `json:"operations"`
	APIGroups   []string `json:"apiGroups"`
	APIVersions []string `json:"apiVersions"`
	Resources   []string `json:"resources"`
	Scope       string   `json:"scope,omitempty"`
}

type Adm struct {
	Name          string    `json:"name"`
	Includes      []string  `json:"includeSnapshotsFrom,omitempty"`
	Group         string    `json:"group,omitempty"`
	Rules         []AdmRule `json:"rules"`
	FailurePolicy string    `json:"failurePolicy,omitempty"`
	SideEffects   string    `json:"sideEffects,omitempty"`
	Timeout       *int      `json:"timeoutSeconds,omitempty"`
	LabelSel      *LabelSel `json:"labelSelector,omitempty"`
	Namespace     *NsSel    `json:"namespace,omitempty"`
}

type ConvRule struct {
	From string `json:"fromVersion"`
	To   string `json:"toVersion"`
}

type Conv struct {
	Name        string     `json:"name,omitempty"`
	Includes    []string   `json:"includeSnapshotsFrom,omitempty"`
	Group       string     `json:"group,omitempty"`
	CrdName     string     `json:"crdName"`
	Conversions []ConvRule `json:"conversions"`
}

type Settings struct {
	Interval string `json:"executionMinInterval"`
	// Burst: nil leaves executionBurst out of the document
	Burst *int `json:"executionBurst,omitempty"`
}

// D is a hook configuration description.
type D struct {
	OnStartup  *int      `json:"onStartup,omitempty"`
	Schedules  []Sched   `json:"schedule,omitempty"`
	Kube       []Kube    `json:"kubernetes,omitempty"`
	Validating []Adm     `json:"kubernetesValidating,omitempty"`
	Mutating   []Adm     `json:"kubernetesMutating,omitempty"`
	Conversion []Conv    `json:"kubernetesCustomResourceConversion,omitempty"`
	Settings   *Settings `json:"settings,omitempty"`
}

// Map renders the description as the generic document a hook prints.
func (d D) Map() map[string]any {
	b, _ := json.Marshal(d)
	var m map[string]any
	_ = json.Unmarshal(b, &m)
	m["configVersion"] = "v1"
	return m
}

func (d D) JSON() string {
	b, _ := json.Marshal(d.Map())
	return string(b)
}

func (d D) YAML() string {
	b, _ := yaml.Marshal(d.Map())
	return string(b)
}

// KubeName returns the effective binding name of a kubernetes binding.
func KubeName(k Kube) string {
	if k.Name == "" {
		return "kubernetes"
	}
	return k.Name
}

func SchedName(s Sched) string {
	if s.Name == "" {
		return "schedule"
	}
	return s.Name
}

func QueueName(q string) string {
	if q == "" {
		return "main"
	}
	return q
}

// EffectiveIncludes = declared includes plus the kubernetes bindings sharing the group, as a sorted set.
func (d D) EffectiveIncludes(declared []string, group string) []string {
	set := map[string]bool{}
	for _, s := range declared {
		set[s] = true
	}
	if group != "" {
		for _, k := range d.Kube {
			if k.Group == group {
				set[KubeName(k)] = true
			}
		}
	}
	out := make([]string, 0, len(set))
	for s := range set {
		out = append(out, s)
	}
	sort.Strings(out)
	return out
}

func SortedSet(in []string) []string {
	set := map[string]bool{}
	for _, s := range in {
		set[s] = true
	}
	out := make([]string, 0, len(set))
	for s := range set {
		out = append(out, s)
	}
	sort.Strings(out)
	return out
}

func B(b bool) *bool { return &b }
func I(i int) *int   { return &i }
