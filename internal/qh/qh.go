// Package qh drives real task queues with a handshake handler: the worker of a queue is
// always either parked inside the handler on a task the harness knows, or idle on an
// empty queue. No sleeps are used for synchronisation.
package qh

import (
	"context"
	"fmt"
	"os"
	"time"

	"github.com/deckhouse/deckhouse/pkg/log"

	"github.com/flant/shell-operator/pkg/task"
	"github.com/flant/shell-operator/pkg/task/queue"
)

func init() {
	// TaskQueue.MeasureActionTime needs a metric storage unless this is set.
	os.Setenv("QUEUE_ACTIONS_METRICS", "no")
	if os.Getenv("VERIF_LOG") == "" {
		log.SetDefault(log.NewNop())
	}
}

// Ceiling is the time a failing case waits before giving up on an expected handler call.
var Ceiling = 20 * time.Second

const TestTask task.TaskType = "VerifTask"

func NewTask(id string) *task.BaseTask {
	t := task.NewTask(TestTask)
	t.Id = id
	return t
}

// Started is sent by the handler when the worker enters it.
type Started struct {
	Queue string
	Task  task.Task
	At    time.Time
}

// Worker wraps one started TaskQueue.
type Worker struct {
	Q        *queue.TaskQueue
	Name     string
	StartedC chan Started
	releaseC chan queue.TaskResult
	appliedC chan struct{}
	InFlight task.Task
	// Concurrent counts handler entries while another entry of the same queue is outstanding.
	overlap chan string
}

// FastTimings makes the polling loops of a queue fast.
func FastTimings(q *queue.TaskQueue) {
	q.WaitLoopCheckInterval = 50 * time.Microsecond
	q.DelayOnQueueIsEmpty = 50 * time.Microsecond
	q.DelayOnRepeat = 50 * time.Microsecond
	q.ExponentialBackoffFn = func(int) time.Duration { return 50 * time.Microsecond }
}

func (w *Worker) Handler(t task.Task) queue.TaskResult {
	w.StartedC <- Started{Queue: w.Name, Task: t, At: time.Now()}
	res := <-w.releaseC
	prev := res.AfterHandle
	res.AfterHandle = func() {
		if prev != nil {
			prev()
		}
		w.appliedC <- struct{}{}
	}
	return res
}

// NewWorker creates a queue with the handshake handler; the queue is not started.
func NewWorker(ctx context.Context, name string) *Worker {
	w := &Worker{
		Name:     name,
		StartedC: make(chan Started, 16),
		releaseC: make(chan queue.TaskResult, 1),
		appliedC: make(chan struct{}, 16),
	}
	q := queue.NewTasksQueue()
	q.WithName(name)
	q.WithContext(ctx)
	q.WithHandler(w.Handler)
	FastTimings(q)
	w.Q = q
	return w
}

// Attach wires the handshake handler of w into an existing queue (created by a TaskQueueSet).
func Attach(q *queue.TaskQueue, name string) *Worker {
	w := &Worker{
		Name:     name,
		StartedC: make(chan Started, 16),
		releaseC: make(chan queue.TaskResult, 1),
		appliedC: make(chan struct{}, 16),
		Q:        q,
	}
	q.Handler = w.Handler
	FastTimings(q)
	return w
}

// AwaitStart waits until the worker enters the handler.
func (w *Worker) AwaitStart() (task.Task, error) {
	select {
	case s := <-w.StartedC:
		if w.InFlight != nil {
			return s.Task, fmt.Errorf("queue %s: handler entered for task %s while task %s is still being handled", w.Name, s.Task.GetId(), w.InFlight.GetId())
		}
		w.InFlight = s.Task
		return s.Task, nil
	case <-time.After(Ceiling):
		return nil, fmt.Errorf("queue %s: no handler invocation within %s although the queue is not empty", w.Name, Ceiling)
	}
}

// PollStart returns a pending handler entry without waiting.
func (w *Worker) PollStart() (task.Task, bool) {
	select {
	case s := <-w.StartedC:
		return s.Task, true
	default:
		return nil, false
	}
}

// Release hands the result to the parked handler and waits until the worker loop applied it.
// When wait is false it returns immediately after handing over (used for stop scenarios).
func (w *Worker) Release(res queue.TaskResult, wait bool) error {
	if w.InFlight == nil {
		return fmt.Errorf("harness bug: release without in-flight task")
	}
	w.releaseC <- res
	w.InFlight = nil
	if !wait {
		return nil
	}
	select {
	case <-w.appliedC:
		return nil
	case <-time.After(Ceiling):
		return fmt.Errorf("queue %s: result was not applied within %s", w.Name, Ceiling)
	}
}

// Snapshot returns the queue content through Iterate.
func Snapshot(q *queue.TaskQueue) []task.Task {
	var out []task.Task
	q.Iterate(func(t task.Task) { out = append(out, t) })
	return out
}

// WaitStatus polls the queue status.
func WaitStatus(q *queue.TaskQueue, want string, ceiling time.Duration) bool {
	deadline := time.Now().Add(ceiling)
	for {
		if q.GetStatus() == want {
			return true
		}
		if time.Now().After(deadline) {
			return false
		}
		time.Sleep(20 * time.Microsecond)
	}
}
