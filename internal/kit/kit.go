// Package kit holds small helpers shared by the harnesses: a no-op metric storage,
// JSON canonicalisation, an independent jq evaluation and fake-cluster helpers.
package kit

import (
	"context"
	"encoding/json"
	"fmt"
	"net/http"
	"os"
	"sort"

	"github.com/deckhouse/deckhouse/pkg/log"
	"github.com/itchyny/gojq"
	"github.com/prometheus/client_golang/prometheus"
	"k8s.io/apimachinery/pkg/api/meta"
	metav1 "k8s.io/apimachinery/pkg/apis/meta/v1"
	"k8s.io/apimachinery/pkg/apis/meta/v1/unstructured"
	k8sfields "k8s.io/apimachinery/pkg/fields"
	"k8s.io/apimachinery/pkg/runtime"
	"k8s.io/apimachinery/pkg/runtime/schema"
	dynfake "k8s.io/client-go/dynamic/fake"
	clienttesting "k8s.io/client-go/testing"

	"github.com/flant/kube-client/fake"
	"github.com/flant/shell-operator/pkg/metric"
	"github.com/flant/shell-operator/pkg/metric_storage/operation"
)

func init() {
	os.Setenv("QUEUE_ACTIONS_METRICS", "no")
	if os.Getenv("VERIF_LOG") == "" {
		log.SetDefault(log.NewNop())
	}
}

// NopMetrics implements metric.Storage and does nothing.
type NopMetrics struct{}

var _ metric.Storage = NopMetrics{}

func (NopMetrics) ApplyOperation(operation.MetricOperation, map[string]string) {}
func (NopMetrics) Counter(string, map[string]string) *prometheus.CounterVec    { return nil }
func (NopMetrics) CounterAdd(string, float64, map[string]string)               {}
func (NopMetrics) Gauge(string, map[string]string) *prometheus.GaugeVec        { return nil }
func (NopMetrics) GaugeAdd(string, float64, map[string]string)                 {}
func (NopMetrics) GaugeSet(string, float64, map[string]string)                 {}
func (NopMetrics) Grouped() metric.GroupedStorage                              { return nil }
func (NopMetrics) Handler() http.Handler                                       { return http.NotFoundHandler() }
func (NopMetrics) Histogram(string, map[string]string, []float64) *prometheus.HistogramVec {
	return nil
}
func (NopMetrics) HistogramObserve(string, float64, map[string]string, []float64)   {}
func (NopMetrics) RegisterCounter(string, map[string]string) *prometheus.CounterVec { return nil }
func (NopMetrics) RegisterGauge(string, map[string]string) *prometheus.GaugeVec     { return nil }
func (NopMetrics) RegisterHistogram(string, map[string]string, []float64) *prometheus.HistogramVec {
	return nil
}
func (NopMetrics) SendBatch([]operation.MetricOperation, map[string]string) error { return nil }

// Canon renders any JSON-like value canonically (sorted keys, normalised numbers).
func Canon(v any) string {
	b, err := json.Marshal(v)
	if err != nil {
		return "<<unmarshalable: " + err.Error() + ">>"
	}
	var x any
	if err := json.Unmarshal(b, &x); err != nil {
		return string(b)
	}
	b, _ = json.Marshal(x)
	return string(b)
}

// DeepCopyJSON copies a JSON-like value through its encoding.
func DeepCopyJSON(v any) any {
	b, _ := json.Marshal(v)
	var x any
	_ = json.Unmarshal(b, &x)
	return x
}

// JQ evaluates a jq expression independently of the code under test and returns all outputs.
func JQ(expr string, input any) ([]any, error) {
	q, err := gojq.Parse(expr)
	if err != nil {
		return nil, err
	}
	var outs []any
	iter := q.Run(DeepCopyJSON(input))
	for {
		v, ok := iter.Next()
		if !ok {
			break
		}
		if e, ok := v.(error); ok {
			return nil, e
		}
		outs = append(outs, v)
	}
	return outs, nil
}

// Kind classifies a JSON value.
func Kind(v any) string {
	switch v.(type) {
	case nil:
		return "null"
	case map[string]any:
		return "object"
	case []any:
		return "array"
	default:
		return "scalar"
	}
}

// fieldFilter makes the fake dynamic client honour metadata.name / metadata.namespace field selectors
// on list (client-go's fake ignores field selectors; a real API server does not).
func fieldFilter(fc *fake.Cluster) {
	fd, ok := fc.Client.Dynamic().(*dynfake.FakeDynamicClient)
	if !ok {
		return
	}
	react := clienttesting.ObjectReaction(fd.Tracker())
	fd.PrependReactor("list", "*", func(action clienttesting.Action) (bool, runtime.Object, error) {
		la, ok := action.(clienttesting.ListAction)
		if !ok {
			return false, nil, nil
		}
		fields := la.GetListRestrictions().Fields
		if fields == nil || fields.Empty() {
			return false, nil, nil
		}
		handled, obj, err := react(action)
		if !handled || err != nil || obj == nil {
			return handled, obj, err
		}
		items, err := meta.ExtractList(obj)
		if err != nil {
			return true, obj, nil
		}
		var kept []runtime.Object
		for _, it := range items {
			acc, err := meta.Accessor(it)
			if err != nil {
				continue
			}
			if fields.Matches(k8sfields.Set{"metadata.name": acc.GetName(), "metadata.namespace": acc.GetNamespace()}) {
				kept = append(kept, it)
			}
		}
		if err := meta.SetList(obj, kept); err != nil {
			return true, obj, nil
		}
		return true, obj, nil
	})
}

// NewCluster returns a fake cluster with namespaces created.
func NewCluster(namespaces ...string) *fake.Cluster {
	fc := fake.NewFakeCluster(fake.ClusterVersionV121)
	fieldFilter(fc)
	for _, ns := range namespaces {
		fc.CreateNs(ns)
	}
	return fc
}

var CMGVR = schema.GroupVersionResource{Group: "", Version: "v1", Resource: "configmaps"}

// Obj builds an unstructured ConfigMap-like object from a body (fields besides metadata identity).
func Obj(ns, name string, body map[string]any) *unstructured.Unstructured {
	m := map[string]any{}
	if body != nil {
		m = DeepCopyJSON(body).(map[string]any)
	}
	m["apiVersion"] = "v1"
	m["kind"] = "ConfigMap"
	md, _ := m["metadata"].(map[string]any)
	if md == nil {
		md = map[string]any{}
	}
	md["name"] = name
	md["namespace"] = ns
	m["metadata"] = md
	return &unstructured.Unstructured{Object: m}
}

func Create(fc *fake.Cluster, o *unstructured.Unstructured) error {
	_, err := fc.Client.Dynamic().Resource(CMGVR).Namespace(o.GetNamespace()).Create(context.TODO(), o.DeepCopy(), metav1.CreateOptions{})
	return err
}

func Update(fc *fake.Cluster, o *unstructured.Unstructured) error {
	_, err := fc.Client.Dynamic().Resource(CMGVR).Namespace(o.GetNamespace()).Update(context.TODO(), o.DeepCopy(), metav1.UpdateOptions{})
	return err
}

func Delete(fc *fake.Cluster, ns, name string) error {
	return fc.Client.Dynamic().Resource(CMGVR).Namespace(ns).Delete(context.TODO(), name, metav1.DeleteOptions{})
}

// ListAll lists all configmaps of the fake cluster, keyed ns/name.
func ListAll(fc *fake.Cluster) (map[string]*unstructured.Unstructured, error) {
	l, err := fc.Client.Dynamic().Resource(CMGVR).Namespace("").List(context.TODO(), metav1.ListOptions{})
	if err != nil {
		return nil, err
	}
	out := map[string]*unstructured.Unstructured{}
	for i := range l.Items {
		o := l.Items[i]
		out[o.GetNamespace()+"/"+o.GetName()] = &o
	}
	return out, nil
}

func SortedKeys[V any](m map[string]V) []string {
	ks := make([]string, 0, len(m))
	for k := range m {
		ks = append(ks, k)
	}
	sort.Strings(ks)
	return ks
}

func Must(err error) {
	if err != nil {
		panic(fmt.Sprintf("harness: %v", err))
	}
}
