// Package monkit runs several real monitors (kubernetes bindings) with their real client-go informers on one fake
// cluster: monitors with equal kind, namespace and selectors share one informer through the factory store.
// Monitors are started and stopped while objects change; every running monitor must keep following the cluster.
package monkit

import (
	"context"
	"fmt"
	"sort"
	"strconv"
	"sync"
	"sync/atomic"
	"time"

	"github.com/deckhouse/deckhouse/pkg/log"
	corev1 "k8s.io/api/core/v1"
	metav1 "k8s.io/apimachinery/pkg/apis/meta/v1"
	"k8s.io/apimachinery/pkg/runtime"
	"k8s.io/apimachinery/pkg/watch"
	dynfake "k8s.io/client-go/dynamic/fake"
	clienttesting "k8s.io/client-go/testing"
	kem "github.com/flant/shell-operator/pkg/kube_events_manager"
	kemtypes "github.com/flant/shell-operator/pkg/kube_events_manager/types"
	"pgregory.net/rapid"

	"verif/internal/kit"
)

type Mon struct {
	Ns string `json:"ns"` // namespace whose ConfigMaps the monitor selects
	// Label: the monitor selects namespaces by label (namespace.labelSelector watch=yes) instead of by name
	Label bool `json:"label,omitempty"`
}

type Op struct {
	K     string `json:"k"` // start stop create modify delete settle nscreate nsdelete
	// WindowNs (start): this labelled namespace is created between the monitor's CreateInformers and its Start
	WindowNs string `json:"window_ns,omitempty"`
	// UnlockNs (start of a label monitor): this labelled namespace appears after the start snapshot was taken, and the
	// unlock (EnableKubeEventCb) runs while the monitor is creating the informers of that namespace: the harness
	// triggers it from the monitor's own list request for the namespace
	UnlockNs string `json:"unlock_ns,omitempty"`
	Mon   int    `json:"mon,omitempty"`
	Ns    string `json:"ns,omitempty"`
	Name  string `json:"name,omitempty"`
	State int    `json:"state,omitempty"`
}

type Case struct {
	Mons    []Mon  `json:"mons"`
	Initial []Op   `json:"initial"` // create ops applied before anything starts
	Ops     []Op   `json:"ops"`
	Dummy   string `json:"-"`
}

var namespaces = []string{"default", "ns2"}

// dynNamespaces are created (with the label watch=yes) and deleted by the nscreate/nsdelete operations
var dynNamespaces = []string{"dyn1", "dyn2"}
var names = []string{"a", "b", "c"}

func Gen(t *rapid.T) Case {
	c := Case{}
	nm := rapid.IntRange(2, 3).Draw(t, "nm")
	for i := 0; i < nm; i++ {
		// mostly the same namespace: monitors then share an informer
		c.Mons = append(c.Mons, Mon{Ns: rapid.SampledFrom([]string{"default", "default", "default", "ns2"}).Draw(t, "mns")})
	}
	obj := func(k string) Op {
		return Op{K: k, Ns: rapid.SampledFrom(namespaces).Draw(t, "ons"), Name: rapid.SampledFrom(names).Draw(t, "oname"), State: rapid.IntRange(0, 5).Draw(t, "ostate")}
	}
	for i, n := 0, rapid.IntRange(0, 3).Draw(t, "ninit"); i < n; i++ {
		c.Initial = append(c.Initial, obj("create"))
	}
	if rapid.Bool().Draw(t, "sharedThenStopped") {
		// two monitors of one namespace, the one that was started first goes away, then the cluster changes
		c.Mons[0].Ns, c.Mons[1].Ns = "default", "default"
		first := rapid.IntRange(0, 1).Draw(t, "first")
		c.Ops = append(c.Ops, Op{K: "start", Mon: first}, Op{K: "start", Mon: 1 - first})
		if rapid.Bool().Draw(t, "changeBetween") {
			c.Ops = append(c.Ops, obj("modify"))
		}
		c.Ops = append(c.Ops, Op{K: "stop", Mon: rapid.IntRange(0, 1).Draw(t, "stopped")})
		o := obj("modify")
		o.Ns = "default"
		c.Ops = append(c.Ops, o, Op{K: "settle"})
	}
	hasLabel := rapid.IntRange(0, 2).Draw(t, "labelMonitor") > 0
	dynObj := func(k string) Op {
		return Op{K: k, Ns: rapid.SampledFrom(dynNamespaces).Draw(t, "dns"), Name: rapid.SampledFrom(names).Draw(t, "dname"), State: rapid.IntRange(0, 5).Draw(t, "dstate")}
	}
	if hasLabel {
		// the last monitor selects namespaces by label; labelled namespaces come and go
		c.Mons[nm-1] = Mon{Label: true}
		if rapid.Bool().Draw(t, "dynAtStart") {
			c.Initial = append(c.Initial, Op{K: "nscreate", Ns: "dyn1"}, Op{K: "create", Ns: "dyn1", Name: "a", State: 1})
		}
		st := Op{K: "start", Mon: nm - 1}
		switch rapid.IntRange(0, 3).Draw(t, "window") {
		case 0, 1:
			st.WindowNs = "dyn2"
			c.Initial = append(c.Initial, Op{K: "create", Ns: "dyn2", Name: "b", State: 2})
		case 2:
			st.UnlockNs = "dyn2"
			if rapid.Bool().Draw(t, "unlockInitial") {
				c.Initial = append(c.Initial, Op{K: "create", Ns: "dyn2", Name: "b", State: 2})
			}
		}
		c.Ops = append(c.Ops, st)
		if st.UnlockNs != "" {
			o := dynObj("modify")
			o.Ns = "dyn2"
			c.Ops = append(c.Ops, o, Op{K: "settle"})
		}
		if rapid.Bool().Draw(t, "recreate") {
			c.Ops = append(c.Ops, Op{K: "nsdelete", Ns: "dyn1"}, Op{K: "nscreate", Ns: "dyn1"}, dynObj("modify"), Op{K: "settle"})
		}
	}
	for i, n := 0, rapid.IntRange(3, 14).Draw(t, "nops"); i < n; i++ {
		k := rapid.SampledFrom([]string{"start", "start", "stop", "create", "modify", "modify", "delete", "settle"}).Draw(t, "k")
		if hasLabel && rapid.IntRange(0, 2).Draw(t, "dynOp") == 0 {
			k = rapid.SampledFrom([]string{"nscreate", "nsdelete", "dcreate", "dmodify", "dmodify", "ddelete"}).Draw(t, "dk")
		}
		switch k {
		case "nscreate", "nsdelete":
			c.Ops = append(c.Ops, Op{K: k, Ns: rapid.SampledFrom(dynNamespaces).Draw(t, "nsn")})
		case "dcreate", "dmodify", "ddelete":
			c.Ops = append(c.Ops, dynObj(k[1:]))
		case "start", "stop":
			c.Ops = append(c.Ops, Op{K: k, Mon: rapid.IntRange(0, nm-1).Draw(t, "mon")})
		case "settle":
			c.Ops = append(c.Ops, Op{K: k})
		default:
			c.Ops = append(c.Ops, obj(k))
		}
	}
	return c
}

type running struct {
	mon    interface {
		Snapshot() []kemtypes.ObjectAndFilterResult
		Stop()
		VerifInformers() []kem.VerifInformer
	}
	mu     sync.Mutex
	view   map[string]int // start snapshot folded with the Events received since
	broken string         // first inconsistency seen while folding an Event
}

func stateOf(o kemtypes.ObjectAndFilterResult) int {
	if o.Object == nil {
		return -1
	}
	d, _ := o.Object.Object["data"].(map[string]any)
	v, _ := d["v"].(string)
	n, err := strconv.Atoi(v)
	if err != nil {
		return -1
	}
	return n
}

func body(state int) map[string]any {
	return map[string]any{"data": map[string]any{"v": strconv.Itoa(state)}}
}

func fmtState(m map[string]int) string {
	ks := make([]string, 0, len(m))
	for k := range m {
		ks = append(ks, k)
	}
	sort.Strings(ks)
	s := "{"
	for i, k := range ks {
		if i > 0 {
			s += " "
		}
		s += fmt.Sprintf("%s=%d", k, m[k])
	}
	return s + "}"
}

// Result of a run: the first violation of each kind ("" = none).
type Result struct {
	Snapshot string // a running monitor's snapshot does not converge to the matching objects (C02)
	Events   string // start snapshot + Events of a running monitor does not converge to the matching objects (C01)
	// NonTrivial: a monitor was stopped while another monitor of the same namespace kept running and objects changed later
	NonTrivial bool
	Labels     []string
}

// Settle is how long a running monitor may take to show a change.
var Settle = 3 * time.Second

func Run(c Case) (Result, error) {
	res := Result{}
	kem.DefaultFactoryStore.Reset()
	fc := kit.NewCluster(namespaces...)
	cluster := map[string]int{}
	// the fake API server does not replay changes made between a list request and the watch request that follows it:
	// the harness therefore waits until the watch of a new namespace's informer is registered before it changes
	// objects there (watchSeq counts the registered ConfigMap watches per namespace)
	watchSeq := map[string]int{}
	watchBase := map[string]int{}
	var watchMu sync.Mutex
	if fd, ok := fc.Client.Dynamic().(*dynfake.FakeDynamicClient); ok {
		fd.PrependWatchReactor("configmaps", func(a clienttesting.Action) (bool, watch.Interface, error) {
			w, err := fd.Tracker().Watch(a.GetResource(), a.GetNamespace())
			if err != nil {
				return false, nil, err
			}
			watchMu.Lock()
			watchSeq[a.GetNamespace()]++
			watchMu.Unlock()
			return true, w, nil
		})
	}
	liveDyn := map[string]bool{} // labelled namespaces that exist right now
	var liveMu sync.Mutex         // guards liveDyn for the event callbacks
	nsCreate := func(ns string) error {
		if liveDyn[ns] {
			return nil
		}
		watchMu.Lock()
		watchBase[ns] = watchSeq[ns]
		watchMu.Unlock()
		_, err := fc.Client.CoreV1().Namespaces().Create(context.TODO(), &corev1.Namespace{ObjectMeta: metav1.ObjectMeta{Name: ns, Labels: map[string]string{"watch": "yes"}}}, metav1.CreateOptions{})
		if err != nil {
			return err
		}
		liveMu.Lock()
		liveDyn[ns] = true
		liveMu.Unlock()
		return nil
	}
	apply := func(op Op) error {
		key := op.Ns + "/" + op.Name
		_, exists := cluster[key]
		switch op.K {
		case "nscreate":
			return nsCreate(op.Ns)
		case "nsdelete":
			if !liveDyn[op.Ns] {
				return nil
			}
			if err := fc.Client.CoreV1().Namespaces().Delete(context.TODO(), op.Ns, metav1.DeleteOptions{}); err != nil {
				return err
			}
			liveMu.Lock()
			delete(liveDyn, op.Ns)
			liveMu.Unlock()
			return nil
		case "create", "modify":
			o := kit.Obj(op.Ns, op.Name, body(op.State))
			if exists {
				if err := kit.Update(fc, o); err != nil {
					return err
				}
			} else if err := kit.Create(fc, o); err != nil {
				return err
			}
			cluster[key] = op.State
		case "delete":
			if !exists {
				return nil
			}
			if err := kit.Delete(fc, op.Ns, op.Name); err != nil {
				return err
			}
			delete(cluster, key)
		}
		return nil
	}
	for _, op := range c.Initial {
		if err := apply(op); err != nil {
			return res, fmt.Errorf("harness: %v", err)
		}
	}
	mons := make([]*running, len(c.Mons))
	defer func() {
		for _, r := range mons {
			if r != nil {
				r.mon.Stop()
			}
		}
	}()
	nsOfKey := func(k string) string {
		for i := range k {
			if k[i] == '/' {
				return k[:i]
			}
		}
		return k
	}
	matching := func(i int) map[string]int {
		out := map[string]int{}
		for k, v := range cluster {
			if c.Mons[i].Label {
				if liveDyn[nsOfKey(k)] {
					out[k] = v
				}
			} else if nsOfKey(k) == c.Mons[i].Ns {
				out[k] = v
			}
		}
		return out
	}
	// refold: after a labelled namespace appeared or went away, the objects of that namespace enter or leave the
	// views of the label monitors without Events of their own (see the finding dynamic-informer-initial-list):
	// the harness waits for the snapshots to follow (check) and then takes the namespace's objects over into the views
	// awaitInformers waits until the label monitors have (or no longer have) resource informers for the namespace:
	// from then on every object that appears in the namespace is reported with an Event (before that it may be
	// cached silently, see the finding dynamic-informer-initial-list)
	awaitInformers := func(where, ns string) {
		for i, r := range mons {
			if r == nil || !c.Mons[i].Label {
				continue
			}
			deadline := time.Now().Add(Settle)
			softDeadline := time.Now().Add(500 * time.Millisecond)
			for {
				has := false
				for _, vi := range r.mon.VerifInformers() {
					if vi.Dynamic && vi.Namespace == ns {
						has = true
					}
				}
				if has && liveDyn[ns] {
					// informers exist: give their watch a moment to be registered (softly: an informer that is shared
					// with an earlier incarnation of the namespace keeps its old watch and registers no new one)
					watchMu.Lock()
					watching := watchSeq[ns] > watchBase[ns]
					watchMu.Unlock()
					if !watching && time.Now().Before(softDeadline) {
						time.Sleep(time.Millisecond)
						continue
					}
				}
				if has == liveDyn[ns] {
					break
				}
				if time.Now().After(deadline) {
					if liveDyn[ns] && res.Snapshot == "" {
						res.Snapshot = fmt.Sprintf("%s: monitor %d (namespace.labelSelector): no resource informers exist for the labelled namespace %s %s after it appeared", where, i, ns, Settle)
					}
					if liveDyn[ns] && res.Events == "" {
						res.Events = fmt.Sprintf("%s: monitor %d (namespace.labelSelector): no resource informers exist for the labelled namespace %s %s after it appeared: changes there cannot reach the hook", where, i, ns, Settle)
					}
					break
				}
				time.Sleep(time.Millisecond)
			}
		}
	}
	refold := func(ns string) {
		for i, r := range mons {
			if r == nil || !c.Mons[i].Label {
				continue
			}
			r.mu.Lock()
			for k := range r.view {
				if nsOfKey(k) == ns {
					delete(r.view, k)
				}
			}
			if liveDyn[ns] {
				for k, v := range cluster {
					if nsOfKey(k) == ns {
						r.view[k] = v
					}
				}
			}
			r.mu.Unlock()
		}
	}
	check := func(where string) {
		for i, r := range mons {
			if r == nil {
				continue
			}
			want := fmtState(matching(i))
			deadline := time.Now().Add(Settle)
			var gotSnap, gotView string
			for {
				snap := map[string]int{}
				for _, o := range r.mon.Snapshot() {
					id := o.Metadata.ResourceId // ns/ConfigMap/name
					var ns, name string
					fmt.Sscanf(replaceSlashes(id), "%s ConfigMap %s", &ns, &name)
					snap[ns+"/"+name] = stateOf(o)
				}
				gotSnap = fmtState(snap)
				r.mu.Lock()
				gotView = fmtState(r.view)
				broken := r.broken
				r.mu.Unlock()
				if broken != "" && res.Events == "" {
					res.Events = fmt.Sprintf("%s: monitor %d (namespace %s): %s", where, i, c.Mons[i].Ns, broken)
				}
				if (gotSnap == want && gotView == want) || time.Now().After(deadline) {
					break
				}
				time.Sleep(2 * time.Millisecond)
			}
			if gotSnap != want && res.Snapshot == "" {
				res.Snapshot = fmt.Sprintf("%s: the snapshot of running monitor %d (namespace %s) shows %s for %s, the matching objects of the cluster are %s", where, i, c.Mons[i].Ns, gotSnap, Settle, want)
			}
			if gotView != want && res.Events == "" {
				res.Events = fmt.Sprintf("%s: monitor %d (namespace %s): its start snapshot plus the Events it received give %s (%s after the last change), the matching objects of the cluster are %s", where, i, c.Mons[i].Ns, gotView, Settle, want)
			}
		}
	}
	stoppedWhileShared := false
	for step, op := range c.Ops {
		where := fmt.Sprintf("step %d (%+v)", step, op)
		switch op.K {
		case "start":
			if op.Mon >= len(mons) || mons[op.Mon] != nil {
				continue
			}
			r := &running{view: map[string]int{}}
			isLabel := c.Mons[op.Mon].Label
			cfg := &kem.MonitorConfig{ApiVersion: "v1", Kind: "ConfigMap", KeepFullObjectsInMemory: true,
				NamespaceSelector: &kemtypes.NamespaceSelector{NameSelector: &kemtypes.NameSelector{MatchNames: []string{c.Mons[op.Mon].Ns}}}}
			if c.Mons[op.Mon].Label {
				cfg.NamespaceSelector = &kemtypes.NamespaceSelector{LabelSelector: &metav1.LabelSelector{MatchLabels: map[string]string{"watch": "yes"}}}
			}
			cfg.WithEventTypes(nil)
			cfg.Metadata.MonitorId = fmt.Sprintf("mon-%d-%d", op.Mon, step)
			cfg.Metadata.DebugName = cfg.Metadata.MonitorId
			m := kem.NewMonitor(context.Background(), fc.Client, kit.NopMetrics{}, cfg, func(e kemtypes.KubeEvent) {
				r.mu.Lock()
				defer r.mu.Unlock()
				for i, o := range e.Objects {
					id := o.Metadata.ResourceId
					var ns, name string
					fmt.Sscanf(replaceSlashes(id), "%s ConfigMap %s", &ns, &name)
					key := ns + "/" + name
					if isLabel {
						// an Event of a namespace that does not match any more (still on its way when the namespace
						// went away) says nothing about the matching objects
						liveMu.Lock()
						gone := !liveDyn[ns]
						liveMu.Unlock()
						if gone {
							continue
						}
					}
					typ := kemtypes.WatchEventType("")
					if i < len(e.WatchEvents) {
						typ = e.WatchEvents[i]
					} else if len(e.WatchEvents) > 0 {
						typ = e.WatchEvents[0]
					}
					switch typ {
					case kemtypes.WatchEventDeleted:
						delete(r.view, key)
					default:
						r.view[key] = stateOf(o)
					}
				}
			}, log.NewNop())
			if err := m.CreateInformers(); err != nil {
				return res, fmt.Errorf("harness: CreateInformers: %v", err)
			}
			windowNs := ""
			if op.WindowNs != "" && c.Mons[op.Mon].Label && !liveDyn[op.WindowNs] {
				// a labelled namespace appears after the monitor listed the namespaces and before its namespace
				// informer starts
				if err := nsCreate(op.WindowNs); err != nil {
					return res, fmt.Errorf("harness: %v", err)
				}
				windowNs = op.WindowNs
				res.Labels = append(res.Labels, "namespace-created-between-create-and-start")
			}
			m.Start(context.Background())
			for _, o := range m.Snapshot() {
				var ns, name string
				fmt.Sscanf(replaceSlashes(o.Metadata.ResourceId), "%s ConfigMap %s", &ns, &name)
				r.view[ns+"/"+name] = stateOf(o)
			}
			unlockNs := ""
			var inWindow atomic.Bool
			if op.UnlockNs != "" && isLabel && !liveDyn[op.UnlockNs] {
				if fd, ok := fc.Client.Dynamic().(*dynfake.FakeDynamicClient); ok {
					unlockNs = op.UnlockNs
					var once sync.Once
					fd.PrependReactor("list", "configmaps", func(a clienttesting.Action) (bool, runtime.Object, error) {
						if a.GetNamespace() == unlockNs {
							once.Do(func() {
								inWindow.Store(true)
								done := make(chan struct{})
								go func() {
									m.EnableKubeEventCb()
									close(done)
								}()
								select {
								case <-done:
								case <-time.After(2 * time.Second):
								}
							})
						}
						return false, nil, nil
					})
					r.mon = m
					mons[op.Mon] = r
					if err := nsCreate(unlockNs); err != nil {
						return res, fmt.Errorf("harness: %v", err)
					}
					awaitInformers(where, unlockNs)
					once.Do(func() {})
					if inWindow.Load() {
						res.Labels = append(res.Labels, "unlock-while-namespace-informers-are-created")
						res.NonTrivial = true
					}
				}
			}
			if !inWindow.Load() {
				m.EnableKubeEventCb()
			}
			r.mon = m
			mons[op.Mon] = r
			if unlockNs != "" {
				refold(unlockNs)
				check(where + " (namespace appeared while the binding was unlocked)")
			}
			if windowNs != "" {
				awaitInformers(where, windowNs)
				refold(windowNs)
				check(where + " (namespace created in the start window)")
			}
		case "stop":
			if op.Mon >= len(mons) || mons[op.Mon] == nil {
				continue
			}
			mons[op.Mon].mon.Stop()
			mons[op.Mon] = nil
			for j, r := range mons {
				if r != nil && c.Mons[j].Ns == c.Mons[op.Mon].Ns {
					stoppedWhileShared = true
				}
			}
		case "settle":
			check(where)
		case "nscreate", "nsdelete":
			was := liveDyn[op.Ns]
			if err := apply(op); err != nil {
				return res, fmt.Errorf("harness: %v", err)
			}
			if was != liveDyn[op.Ns] {
				// wait for the snapshots to follow, then take the namespace's objects over into the views
				for i, r := range mons {
					if r != nil && c.Mons[i].Label {
						r.mu.Lock()
						for k := range r.view {
							if nsOfKey(k) == op.Ns {
								delete(r.view, k)
							}
						}
						if liveDyn[op.Ns] {
							for k, v := range cluster {
								if nsOfKey(k) == op.Ns {
									r.view[k] = v
								}
							}
						}
						r.mu.Unlock()
					}
				}
				awaitInformers(where, op.Ns)
				check(where)
				refold(op.Ns)
				res.Labels = append(res.Labels, "labelled-namespace-"+op.K[2:])
				res.NonTrivial = true
			}
		default:
			if err := apply(op); err != nil {
				return res, fmt.Errorf("harness: %v", err)
			}
			if stoppedWhileShared {
				res.NonTrivial = true
			}
		}
	}
	check("end")
	if stoppedWhileShared {
		res.Labels = append(res.Labels, "monitor-stopped-while-another-shares-its-informer")
	}
	return res, nil
}

func replaceSlashes(s string) string {
	b := []byte(s)
	for i := range b {
		if b[i] == '/' {
			b[i] = ' '
		}
	}
	return string(b)
}

const Rule = "2-3 real monitors (kubernetes bindings for ConfigMaps of a namespace, mostly the same one, so that they share one client-go informer through the factory store; in 2 of 3 cases one monitor selects namespaces by label, and labelled namespaces are created - also between that monitor's CreateInformers and Start - deleted and re-created) on one fake cluster; 3-14 operations: start a monitor (create informers, start, take the start snapshot, enable Events), stop a monitor, create/modify/delete objects, settle; at every settle point and at the end every running monitor must, within 3s, show a snapshot equal to the matching objects of the cluster (C02) and its start snapshot folded with the Events it received must equal them too (C01). Real threads; the oracle waits for convergence. Non-trivial: objects changed after a monitor was stopped while another monitor of the same namespace kept running."
