// Package opkit assembles and runs the real shell-operator on a fake cluster with
// scripted hook processes (cmd/vhook).
package opkit

import (
	"context"
	"fmt"
	"os"
	"path/filepath"
	"strings"
	"sync"
	"time"

	"github.com/deckhouse/deckhouse/pkg/log"

	"github.com/flant/kube-client/fake"
	"github.com/flant/shell-operator/pkg/app"
	kem "github.com/flant/shell-operator/pkg/kube_events_manager"
	shop "github.com/flant/shell-operator/pkg/shell-operator"
	"github.com/flant/shell-operator/pkg/task"
	"github.com/flant/shell-operator/pkg/task/queue"
	utilsfile "github.com/flant/shell-operator/pkg/utils/file"

	"verif/internal/hk"
	_ "verif/internal/kit"
	"verif/internal/vh"
)

var once sync.Once

func certDir() string {
	if d := os.Getenv("VERIF_DIR"); d != "" {
		return filepath.Join(d, "internal/opkit/certs")
	}
	return "/verif/internal/opkit/certs"
}

// Globals sets process-wide settings of the operator once: certificates, fast timings.
func Globals() {
	once.Do(func() {
		cd := certDir()
		app.ValidatingWebhookSettings.ServerCertPath = filepath.Join(cd, "server.crt")
		app.ValidatingWebhookSettings.ServerKeyPath = filepath.Join(cd, "server-key.pem")
		app.ValidatingWebhookSettings.CAPath = filepath.Join(cd, "ca.pem")
		app.ValidatingWebhookSettings.ListenAddr = "127.0.0.1"
		app.ValidatingWebhookSettings.ListenPort = "0"
		app.ConversionWebhookSettings.ServerCertPath = filepath.Join(cd, "server.crt")
		app.ConversionWebhookSettings.ServerKeyPath = filepath.Join(cd, "server-key.pem")
		app.ConversionWebhookSettings.CAPath = filepath.Join(cd, "ca.pem")
		app.ConversionWebhookSettings.ListenAddr = "127.0.0.1"
		app.ConversionWebhookSettings.ListenPort = "0"
		app.Namespace = "default"
		queue.DefaultWaitLoopCheckInterval = 500 * time.Microsecond
		queue.DefaultDelayOnQueueIsEmpty = time.Millisecond
		queue.DefaultDelayOnRepeat = time.Millisecond
		queue.DefaultInitialDelayOnFailedTask = 40 * time.Millisecond
		shop.WaitQueuesTimeout = 3 * time.Second
		kem.DefaultSyncTime = 2 * time.Millisecond
	})
}

// Env is one operator instance with its scratch space.
type Env struct {
	Scratch  string
	HooksDir string
	TmpDir   string
	// TmpArg: when set, the temporary directory is given to the operator the way --tmp-dir is: this spelling of
	// TmpDir (for instance relative to the working directory) goes through EnsureTempDirectory first
	TmpArg string
	Tree     *vh.Tree
	FC       *fake.Cluster
	Op       *shop.ShellOperator
	ctx      context.Context
	cancel   context.CancelFunc
	started  bool
	// WhyNotIdle describes what was busy when WaitIdle last gave up
	WhyNotIdle string
	// AddMonitorFaults: "hook/binding" -> number of times AddMonitor fails for that binding (set before Assemble)
	AddMonitorFaults map[string]int
}

// New creates scratch space, an empty hooks tree and a fake cluster with the given namespaces.
func New(prefix string, fc *fake.Cluster) (*Env, error) {
	Globals()
	e := &Env{Scratch: hk.Scratch(prefix), FC: fc}
	e.HooksDir = filepath.Join(e.Scratch, "hooks")
	e.TmpDir = filepath.Join(e.Scratch, "tmp")
	if err := os.MkdirAll(e.TmpDir, 0o755); err != nil {
		return nil, err
	}
	t, err := vh.NewTree(e.HooksDir, hk.VHookBin())
	if err != nil {
		return nil, err
	}
	e.Tree = t
	return e, nil
}

// faultyKEM lets AddMonitor fail a number of times for chosen bindings (as a kind that is not served yet would).
type faultyKEM struct {
	kem.KubeEventsManager
	mu     *sync.Mutex
	faults map[string]int // "hook/binding" -> remaining failures
}

func (f *faultyKEM) AddMonitor(cfg *kem.MonitorConfig) error {
	f.mu.Lock()
	defer f.mu.Unlock()
	for key, left := range f.faults {
		hook, binding, _ := strings.Cut(key, "/")
		if left > 0 && cfg.Metadata.LogLabels["hook"] == hook && strings.HasSuffix(cfg.Metadata.DebugName, "{"+binding+"}") {
			f.faults[key] = left - 1
			return fmt.Errorf("injected: the kind of binding %s is not served by the cluster yet", binding)
		}
	}
	return f.KubeEventsManager.AddMonitor(cfg)
}

// Assemble loads the hooks with the real initialization code (VerifAssemble).
func (e *Env) Assemble() error {
	kem.DefaultFactoryStore.Reset()
	shop.VerifWrapKubeEventsManager = nil
	if len(e.AddMonitorFaults) > 0 {
		faults := e.AddMonitorFaults
		var mu sync.Mutex
		shop.VerifWrapKubeEventsManager = func(inner kem.KubeEventsManager) kem.KubeEventsManager {
			return &faultyKEM{KubeEventsManager: inner, mu: &mu, faults: faults}
		}
	}
	e.ctx, e.cancel = context.WithCancel(context.Background())
	logger := log.NewNop()
	if os.Getenv("VERIF_LOG") != "" {
		logger = log.NewLogger(log.Options{})
	}
	tmp := e.TmpDir
	if e.TmpArg != "" {
		// the --tmp-dir argument as the operator's bootstrap treats it
		d, err := utilsfile.EnsureTempDirectory(e.TmpArg)
		if err != nil {
			e.cancel()
			return err
		}
		tmp = d
	}
	op, err := shop.VerifAssemble(e.ctx, e.FC.Client, e.HooksDir, tmp, logger)
	if err != nil {
		e.cancel()
		return err
	}
	e.Op = op
	return nil
}

func (e *Env) Start() {
	e.Op.Start()
	e.started = true
}

// Close shuts the operator down and removes the scratch directory.
func (e *Env) Close() {
	if e.Op != nil && e.started {
		// release every gate so that parked hooks finish
		e.OpenAllGates()
		e.Op.Shutdown()
	}
	if e.cancel != nil {
		e.cancel()
	}
	os.RemoveAll(e.Scratch)
}

// Restart shuts the operator down (as SIGTERM does) and assembles and starts a new one on the same
// fake cluster, hooks directory and temp directory.
func (e *Env) Restart() error {
	if e.Op != nil && e.started {
		e.OpenAllGates()
		e.Op.Shutdown()
	}
	if e.cancel != nil {
		e.cancel()
	}
	e.started = false
	if err := e.Assemble(); err != nil {
		return err
	}
	e.Start()
	return nil
}

// OpenAllGates creates the well-known gate files g0..g31.
func (e *Env) OpenAllGates() {
	for i := 0; i < 32; i++ {
		_ = e.Tree.OpenGate(fmt.Sprintf("g%d", i))
	}
}

// Tick injects a schedule event exactly as the schedule manager's cron function does.
func (e *Env) Tick(crontab string) {
	e.Op.ScheduleManager.Ch() <- crontab
}

// QueueTasks returns the tasks of a queue.
func (e *Env) QueueTasks(name string) []task.Task {
	q := e.Op.TaskQueues.GetByName(name)
	if q == nil {
		return nil
	}
	var out []task.Task
	q.Iterate(func(t task.Task) { out = append(out, t) })
	return out
}

// QueuesIdle reports whether all queues are empty and no handler is running.
func (e *Env) QueuesIdle() bool {
	idle := true
	e.Op.TaskQueues.Iterate(func(q *queue.TaskQueue) {
		if q.Length() > 0 {
			idle = false
		}
		st := q.GetStatus()
		if st == "run first task" {
			idle = false
		}
	})
	return idle
}

// IdleNow is a one-shot version of the WaitIdle condition (without the stability window).
func (e *Env) IdleNow() bool {
	recs, _ := e.Tree.ReadLog()
	return e.QueuesIdle() && len(e.Op.ScheduleManager.Ch()) == 0 && len(e.Op.KubeEventsManager.Ch()) == 0 && balanced(recs)
}

// WaitIdle polls until all queues stayed idle, the event channels are empty and the hook log is
// stable for `stable`; ceiling bounds the wait (reached only by failing cases).
func (e *Env) WaitIdle(stable, ceiling time.Duration) bool {
	deadline := time.Now().Add(ceiling)
	var since time.Time
	lastLen := -1
	for {
		recs, _ := e.Tree.ReadLog()
		ok := e.QueuesIdle() && len(e.Op.ScheduleManager.Ch()) == 0 && len(e.Op.KubeEventsManager.Ch()) == 0 && len(recs) == lastLen && balanced(recs)
		lastLen = len(recs)
		if ok {
			if since.IsZero() {
				since = time.Now()
			}
			if time.Since(since) >= stable {
				return true
			}
		} else {
			since = time.Time{}
		}
		if time.Now().After(deadline) {
			e.WhyNotIdle = e.describeBusy(recs)
			return false
		}
		time.Sleep(time.Millisecond)
	}
}

// describeBusy says which part of the idle condition does not hold (diagnostics for harness time-outs).
func (e *Env) describeBusy(recs []vh.Record) string {
	var sb []string
	e.Op.TaskQueues.Iterate(func(q *queue.TaskQueue) {
		if q.Length() > 0 || q.GetStatus() == "run first task" {
			first := ""
			if t := q.GetFirst(); t != nil {
				first = t.GetDescription()
			}
			sb = append(sb, fmt.Sprintf("queue %s: %d tasks, status %q, head %s", q.Name, q.Length(), q.GetStatus(), first))
		}
	})
	if n := len(e.Op.ScheduleManager.Ch()); n > 0 {
		sb = append(sb, "schedule channel not empty")
	}
	if n := len(e.Op.KubeEventsManager.Ch()); n > 0 {
		sb = append(sb, "kube events channel not empty")
	}
	if !balanced(recs) {
		sb = append(sb, "a hook process is still running")
	}
	return fmt.Sprint(sb)
}

func balanced(recs []vh.Record) bool {
	n := 0
	for _, r := range recs {
		switch r.Phase {
		case "start":
			n++
		case "end":
			n--
		}
	}
	return n == 0
}
