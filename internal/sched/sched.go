// Package sched is a cooperative scheduler: actors are goroutines of which exactly one runs at
// a time; an actor runs until its next verifhook.Yield (or until it returns) and parks there.
// The caller decides which actor runs next, so an interleaving is a plain list of choices.
package sched

import (
	"bytes"
	"fmt"
	"runtime"
	"runtime/debug"
	"strconv"
	"sync"

	"github.com/flant/shell-operator/pkg/utils/verifhook"
)

type Actor struct {
	Name    string
	fn      func()
	resume  chan struct{}
	event   chan bool // true = parked, false = done
	Started bool
	Done    bool
	Point   string
	Keys    []string
	Panic   string
	Steps   int
}

type S struct {
	mu     sync.Mutex
	byGid  map[int64]*Actor
	actors []*Actor
}

func gid() int64 {
	var buf [64]byte
	n := runtime.Stack(buf[:], false)
	// "goroutine 123 ["
	b := buf[:n]
	b = bytes.TrimPrefix(b, []byte("goroutine "))
	i := bytes.IndexByte(b, ' ')
	if i < 0 {
		return -1
	}
	id, _ := strconv.ParseInt(string(b[:i]), 10, 64)
	return id
}

// New creates a scheduler and installs it as the verifhook hook.
func New() *S {
	s := &S{byGid: map[int64]*Actor{}}
	verifhook.Install(s)
	return s
}

// Close uninstalls the hook. All actors must be done.
func (s *S) Close() {
	verifhook.Install(nil)
}

func (s *S) Spawn(name string, fn func()) *Actor {
	a := &Actor{Name: name, fn: fn, resume: make(chan struct{}), event: make(chan bool)}
	s.actors = append(s.actors, a)
	return a
}

func (s *S) lookup() *Actor {
	g := gid()
	s.mu.Lock()
	a := s.byGid[g]
	s.mu.Unlock()
	return a
}

// Yield implements verifhook.Hook: only actors park; any other goroutine passes through.
func (s *S) Yield(point string, keys ...string) {
	a := s.lookup()
	if a == nil {
		return
	}
	a.Point, a.Keys = point, keys
	a.event <- true
	<-a.resume
}

// Skip implements verifhook.Hook: no real informer is started under the scheduler.
func (s *S) Skip(point string) bool {
	return point == "ri.start" || point == "nsi.start"
}

// Step runs the actor until it parks or finishes. It returns true while the actor is still alive.
func (s *S) Step(a *Actor) bool {
	if a.Done {
		return false
	}
	a.Steps++
	if !a.Started {
		a.Started = true
		ready := make(chan struct{})
		go func() {
			g := gid()
			s.mu.Lock()
			s.byGid[g] = a
			s.mu.Unlock()
			close(ready)
			defer func() {
				if r := recover(); r != nil {
					a.Panic = fmt.Sprintf("%v\n%s", r, debug.Stack())
				}
				s.mu.Lock()
				delete(s.byGid, g)
				s.mu.Unlock()
				a.Done = true
				a.event <- false
			}()
			<-a.resume
			a.fn()
		}()
		<-ready
	}
	a.resume <- struct{}{}
	parked := <-a.event
	return parked
}

// Finish runs an actor to completion (used for draining at the end of a case).
func (s *S) Finish(a *Actor) {
	for s.Step(a) {
	}
}
