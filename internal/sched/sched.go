// Package sched is a cooperative scheduler: actors are goroutines of which exactly one runs at
// a time; an actor runs until its next verifhook.Yield (or until it returns) and parks there.
// The caller decides which actor runs next, so an interleaving is a plain list of choices.
package sched

import (
	"bytes"
	"fmt"
	"runtime"
	"runtime/debug"
	"strconv"
	"strings"
	"sync"
	"time"

	"github.com/flant/shell-operator/pkg/utils/verifhook"
)

type Actor struct {
	Name    string
	fn      func()
	resume  chan struct{}
	event   chan bool // true = parked, false = done
	Started bool
	Done    bool
	Point   string
	Keys    []string
	Panic   string
	Steps   int
	// IsBlocked: the actor was found waiting for a mutex; its next event has not been collected yet.
	IsBlocked bool
	gid       int64
}

type S struct {
	mu     sync.Mutex
	byGid  map[int64]*Actor
	actors []*Actor
}

func gid() int64 {
	var buf [64]byte
	n := runtime.Stack(buf[:], false)
	// "goroutine 123 ["
	b := buf[:n]
	b = bytes.TrimPrefix(b, []byte("goroutine "))
	i := bytes.IndexByte(b, ' ')
	if i < 0 {
		return -1
	}
	id, _ := strconv.ParseInt(string(b[:i]), 10, 64)
	return id
}

// New creates a scheduler and installs it as the verifhook hook.
func New() *S {
	s := &S{byGid: map[int64]*Actor{}}
	verifhook.Install(s)
	return s
}

// Close uninstalls the hook. All actors must be done.
func (s *S) Close() {
	verifhook.Install(nil)
}

func (s *S) Spawn(name string, fn func()) *Actor {
	a := &Actor{Name: name, fn: fn, resume: make(chan struct{}), event: make(chan bool)}
	s.actors = append(s.actors, a)
	return a
}

func (s *S) lookup() *Actor {
	g := gid()
	s.mu.Lock()
	a := s.byGid[g]
	s.mu.Unlock()
	return a
}

// Self returns the actor running on the calling goroutine (nil for any other goroutine).
func (s *S) Self() *Actor { return s.lookup() }

// Yield implements verifhook.Hook: only actors park; any other goroutine passes through.
func (s *S) Yield(point string, keys ...string) {
	a := s.lookup()
	if a == nil {
		return
	}
	a.Point, a.Keys = point, keys
	a.event <- true
	<-a.resume
}

// Skip implements verifhook.Hook: no real informer is started under the scheduler.
func (s *S) Skip(point string) bool {
	return point == "ri.start" || point == "nsi.start"
}

// Status of an actor after a step.
type Status int

const (
	Parked  Status = iota // at a yield point
	Done                  // returned
	Blocked               // waiting for a mutex held by a parked actor; it will arrive later (Poll)
)

// goroutineWait returns the wait reason of a goroutine ("" when it is running/runnable or unknown).
func goroutineWait(id int64) string {
	buf := make([]byte, 1<<16)
	for {
		n := runtime.Stack(buf, true)
		if n < len(buf) {
			buf = buf[:n]
			break
		}
		buf = make([]byte, 2*len(buf))
	}
	needle := []byte("goroutine " + strconv.FormatInt(id, 10) + " [")
	i := bytes.Index(buf, needle)
	if i < 0 {
		return ""
	}
	rest := buf[i+len(needle):]
	j := bytes.IndexByte(rest, ']')
	if j < 0 {
		return ""
	}
	return string(rest[:j])
}

func isMutexWait(reason string) bool {
	return strings.HasPrefix(reason, "sync.Mutex.Lock") || strings.HasPrefix(reason, "sync.RWMutex.") || strings.HasPrefix(reason, "semacquire")
}

// StepB is Step with detection of an actor that blocks on a mutex held by a parked actor.
func (s *S) StepB(a *Actor) Status {
	if a.Done {
		return Done
	}
	if a.IsBlocked {
		return s.Poll(a)
	}
	s.begin(a)
	a.resume <- struct{}{}
	return s.await(a)
}

var DebugStats struct {
	AwaitSlow, AwaitBlocked, WaitUnb int
	SlowReasons                      map[string]int
}

func (s *S) await(a *Actor) Status {
	wait := 200 * time.Microsecond
	for {
		select {
		case parked := <-a.event:
			a.IsBlocked = false
			if parked {
				return Parked
			}
			return Done
		case <-time.After(wait):
			r := goroutineWait(a.gid)
			if DebugStats.SlowReasons == nil {
				DebugStats.SlowReasons = map[string]int{}
			}
			DebugStats.SlowReasons[r]++
			if isMutexWait(r) {
				a.IsBlocked = true
				DebugStats.AwaitBlocked++
				return Blocked
			}
			DebugStats.AwaitSlow++
			if wait < 20*time.Millisecond {
				wait *= 2
			}
		}
	}
}

// Poll checks whether a blocked actor has arrived at its next yield point (or finished) meanwhile.
func (s *S) Poll(a *Actor) Status {
	if !a.IsBlocked {
		if a.Done {
			return Done
		}
		return Parked
	}
	select {
	case parked := <-a.event:
		a.IsBlocked = false
		if parked {
			return Parked
		}
		return Done
	default:
		return Blocked
	}
}

// Settle waits until a blocked actor has either arrived at its next point or is verifiably still waiting
// for a mutex (so that the state after every step does not depend on goroutine timing).
func (s *S) Settle(a *Actor) Status {
	for i := 0; ; i++ {
		if st := s.Poll(a); st != Blocked {
			return st
		}
		if isMutexWait(goroutineWait(a.gid)) {
			// double check: it may have been released in between
			if st := s.Poll(a); st != Blocked {
				return st
			}
			return Blocked
		}
		if i > 20000 {
			return Blocked
		}
		time.Sleep(10 * time.Microsecond)
	}
}

// WaitUnblocked waits (bounded) until a blocked actor arrives; used when nothing else can run.
func (s *S) WaitUnblocked(a *Actor, d time.Duration) Status {
	DebugStats.WaitUnb++
	select {
	case parked := <-a.event:
		a.IsBlocked = false
		if parked {
			return Parked
		}
		return Done
	case <-time.After(d):
		return Blocked
	}
}

func (s *S) begin(a *Actor) {
	a.Steps++
	if a.Started {
		return
	}
	a.Started = true
	ready := make(chan struct{})
	go func() {
		g := gid()
		a.gid = g
		s.mu.Lock()
		s.byGid[g] = a
		s.mu.Unlock()
		close(ready)
		defer func() {
			if r := recover(); r != nil {
				a.Panic = fmt.Sprintf("%v\n%s", r, debug.Stack())
			}
			s.mu.Lock()
			delete(s.byGid, g)
			s.mu.Unlock()
			a.Done = true
			a.event <- false
		}()
		<-a.resume
		a.fn()
	}()
	<-ready
}

// Step runs the actor until it parks or finishes. It returns true while the actor is still alive.
// It must only be used when no yield point lies inside a critical section.
func (s *S) Step(a *Actor) bool {
	if a.Done {
		return false
	}
	a.Steps++
	if !a.Started {
		a.Started = true
		ready := make(chan struct{})
		go func() {
			g := gid()
			s.mu.Lock()
			s.byGid[g] = a
			s.mu.Unlock()
			close(ready)
			defer func() {
				if r := recover(); r != nil {
					a.Panic = fmt.Sprintf("%v\n%s", r, debug.Stack())
				}
				s.mu.Lock()
				delete(s.byGid, g)
				s.mu.Unlock()
				a.Done = true
				a.event <- false
			}()
			<-a.resume
			a.fn()
		}()
		<-ready
	}
	a.resume <- struct{}{}
	parked := <-a.event
	return parked
}

// Finish runs an actor to completion (used for draining at the end of a case).
func (s *S) Finish(a *Actor) {
	for s.Step(a) {
	}
}
