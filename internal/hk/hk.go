// Package hk builds real hook managers over generated hook directories.
package hk

import (
	"fmt"
	"os"
	"path/filepath"
	"sync/atomic"

	"github.com/deckhouse/deckhouse/pkg/log"

	"github.com/flant/shell-operator/pkg/app"
	"github.com/flant/shell-operator/pkg/hook"
	"github.com/flant/shell-operator/pkg/webhook/admission"
	"github.com/flant/shell-operator/pkg/webhook/conversion"

	_ "verif/internal/kit"
)

// VHookBin returns the path of the scripted hook executable built by the driver.
func VHookBin() string {
	if d := os.Getenv("VERIF_BIN_DIR"); d != "" {
		p := filepath.Join(d, "vhook")
		if _, err := os.Stat(p); err == nil {
			return p
		}
	}
	for _, p := range []string{"/verif/.work/vhook"} {
		if _, err := os.Stat(p); err == nil {
			return p
		}
	}
	panic("harness: vhook binary not found (VERIF_BIN_DIR)")
}

var scratchN atomic.Int64

// Scratch creates a fresh scratch directory for one case.
func Scratch(prefix string) string {
	base := os.Getenv("VERIF_SCRATCH")
	if base == "" {
		base = filepath.Join("/verif/.work", fmt.Sprintf("adhoc-%d", os.Getpid()))
	}
	d := filepath.Join(base, fmt.Sprintf("%s-%d", prefix, scratchN.Add(1)))
	if err := os.MkdirAll(d, 0o755); err != nil {
		panic("harness: " + err.Error())
	}
	return d
}

// NewManager returns a hook manager as the repository's own tests build it (no kube/schedule managers).
func NewManager(hooksDir, tmpDir string) *hook.Manager {
	conversionManager := conversion.NewWebhookManager()
	conversionManager.Settings = app.ConversionWebhookSettings
	admissionManager := admission.NewWebhookManager(nil)
	admissionManager.Settings = app.ValidatingWebhookSettings
	return hook.NewHookManager(&hook.ManagerConfig{
		WorkingDir: hooksDir,
		TempDir:    tmpDir,
		Wmgr:       admissionManager,
		Cmgr:       conversionManager,
		Logger:     log.NewNop(),
	})
}
