#!/usr/bin/env python3
"""Rewrites the seeded-change table in DESIGN.md (between the SEED-TABLE markers) from seeded/*/meta.json."""
import json, glob, re
rows = []
for f in sorted(glob.glob('/verif/seeded/*/meta.json')):
    m = json.load(open(f))
    mm = re.search(r'/tmp/wt(\d)-', m.get('confirmed', ''))
    rnd = mm.group(1) if mm else '1'
    rows.append((m['property'], rnd, m['slug'], m['needs_to_manifest'], m['result']))
rows.sort()
out = ['| property | round | change | needs to manifest | result |', '|----------|-------|--------|-------------------|--------|']
for r in rows:
    out.append('| %s | %s | %s | %s | %s |' % tuple(x.replace('|', '/') for x in r))
missed = sum(1 for r in rows if r[4].startswith('missed') or r[4].startswith('observed'))
undetected = sum(1 for r in rows if r[4].startswith('not detected'))
out.append('')
out.append('%d changes (%d in round 1, %d in later rounds); %d were caught by the checks as they stood, %d were missed at first and led to a strengthening listed in the result column. %d are now caught by the *quick* tier; %d are deliberately not judged (see their result column).' % (
    len(rows), sum(1 for r in rows if r[1] == '1'), sum(1 for r in rows if r[1] != '1'), len(rows) - missed - undetected, missed, len(rows) - undetected, undetected))
p = '/verif/DESIGN.md'
s = open(p).read()
a, b = '<!-- SEED-TABLE-BEGIN -->', '<!-- SEED-TABLE-END -->'
s = s[:s.index(a) + len(a)] + '\n' + '\n'.join(out) + '\n' + s[s.index(b):]
open(p, 'w').write(s)
print(len(rows), 'rows')
