module verif

go 1.23.8

require (
	github.com/deckhouse/deckhouse/pkg/log v0.0.0-20241205040953-7b376bae249c
	github.com/flant/kube-client v1.3.0
	github.com/flant/shell-operator v0.0.0
	github.com/itchyny/gojq v0.12.17
	github.com/prometheus/client_golang v1.20.5
	github.com/prometheus/client_model v0.6.1
	gopkg.in/yaml.v3 v3.0.1
	k8s.io/api v0.30.11
	k8s.io/apimachinery v0.30.11
	k8s.io/client-go v0.30.11
	pgregory.net/rapid v1.3.0
	sigs.k8s.io/yaml v1.4.0
)

require (
	github.com/DataDog/gostackparse v0.7.0 // indirect
	github.com/alecthomas/template v0.0.0-20190718012654-fb15b899a751 // indirect
	github.com/alecthomas/units v0.0.0-20211218093645-b94a6e3cc137 // indirect
	github.com/asaskevich/govalidator v0.0.0-20200428143746-21a406dcc535 // indirect
	github.com/beorn7/perks v1.0.1 // indirect
	github.com/cespare/xxhash/v2 v2.3.0 // indirect
	github.com/davecgh/go-spew v1.1.1 // indirect
	github.com/deckhouse/module-sdk v0.2.0 // indirect
	github.com/emicklei/go-restful/v3 v3.11.0 // indirect
	github.com/ettle/strcase v0.2.0 // indirect
	github.com/evanphx/json-patch v5.9.0+incompatible // indirect
	github.com/evanphx/json-patch/v5 v5.9.0 // indirect
	github.com/go-chi/chi/v5 v5.2.1 // indirect
	github.com/go-errors/errors v1.4.2 // indirect
	github.com/go-logr/logr v1.4.2 // indirect
	github.com/go-openapi/analysis v0.19.10 // indirect
	github.com/go-openapi/errors v0.19.7 // indirect
	github.com/go-openapi/jsonpointer v0.19.6 // indirect
	github.com/go-openapi/jsonreference v0.20.2 // indirect
	github.com/go-openapi/loads v0.19.5 // indirect
	github.com/go-openapi/runtime v0.19.16 // indirect
	github.com/go-openapi/spec v0.19.8 // indirect
	github.com/go-openapi/strfmt v0.19.5 // indirect
	github.com/go-openapi/swag v0.22.5 // indirect
	github.com/go-openapi/validate v0.19.12 // indirect
	github.com/go-stack/stack v1.8.0 // indirect
	github.com/gofrs/uuid/v5 v5.3.2 // indirect
	github.com/gogo/protobuf v1.3.2 // indirect
	github.com/gojuno/minimock/v3 v3.4.5 // indirect
	github.com/golang/protobuf v1.5.4 // indirect
	github.com/google/btree v1.0.1 // indirect
	github.com/google/gnostic-models v0.6.8 // indirect
	github.com/google/go-cmp v0.7.0 // indirect
	github.com/google/go-containerregistry v0.17.0 // indirect
	github.com/google/gofuzz v1.2.0 // indirect
	github.com/google/shlex v0.0.0-20191202100458-e7afc7fbc510 // indirect
	github.com/google/uuid v1.6.0 // indirect
	github.com/gregjones/httpcache v0.0.0-20180305231024-9cad4c3443a7 // indirect
	github.com/hashicorp/errwrap v1.1.0 // indirect
	github.com/hashicorp/go-multierror v1.1.1 // indirect
	github.com/imdario/mergo v0.3.16 // indirect
	github.com/itchyny/timefmt-go v0.1.6 // indirect
	github.com/jonboulle/clockwork v0.4.0 // indirect
	github.com/josharian/intern v1.0.0 // indirect
	github.com/json-iterator/go v1.1.12 // indirect
	github.com/kennygrant/sanitize v1.2.4 // indirect
	github.com/klauspost/compress v1.17.9 // indirect
	github.com/mailru/easyjson v0.7.7 // indirect
	github.com/mitchellh/mapstructure v1.4.1 // indirect
	github.com/modern-go/concurrent v0.0.0-20180306012644-bacd9c7ef1dd // indirect
	github.com/modern-go/reflect2 v1.0.2 // indirect
	github.com/monochromegane/go-gitignore v0.0.0-20200626010858-205db1a8cc00 // indirect
	github.com/munnerz/goautoneg v0.0.0-20191010083416-a7dc8b61c822 // indirect
	github.com/peterbourgon/diskv v2.0.1+incompatible // indirect
	github.com/pkg/errors v0.9.1 // indirect
	github.com/pmezard/go-difflib v1.0.0 // indirect
	github.com/prometheus/common v0.55.0 // indirect
	github.com/prometheus/procfs v0.15.1 // indirect
	github.com/spf13/pflag v1.0.5 // indirect
	github.com/tidwall/gjson v1.14.4 // indirect
	github.com/tidwall/match v1.1.1 // indirect
	github.com/tidwall/pretty v1.2.0 // indirect
	github.com/xlab/treeprint v1.2.0 // indirect
	go.mongodb.org/mongo-driver v1.5.4 // indirect
	go.starlark.net v0.0.0-20230525235612-a134d8f9ddca // indirect
	golang.org/x/net v0.37.0 // indirect
	golang.org/x/oauth2 v0.21.0 // indirect
	golang.org/x/sync v0.12.0 // indirect
	golang.org/x/sys v0.31.0 // indirect
	golang.org/x/term v0.30.0 // indirect
	golang.org/x/text v0.23.0 // indirect
	golang.org/x/time v0.11.0 // indirect
	google.golang.org/protobuf v1.36.5 // indirect
	gopkg.in/alecthomas/kingpin.v2 v2.2.6 // indirect
	gopkg.in/inf.v0 v0.9.1 // indirect
	gopkg.in/robfig/cron.v2 v2.0.0-20150107220207-be2e0b0deed5 // indirect
	gopkg.in/yaml.v2 v2.4.0 // indirect
	k8s.io/apiextensions-apiserver v0.30.11 // indirect
	k8s.io/cli-runtime v0.30.11 // indirect
	k8s.io/klog/v2 v2.130.1 // indirect
	k8s.io/kube-openapi v0.0.0-20240228011516-70dd3763d340 // indirect
	k8s.io/utils v0.0.0-20240711033017-18e509b52bc8 // indirect
	sigs.k8s.io/controller-runtime v0.17.0 // indirect
	sigs.k8s.io/json v0.0.0-20221116044647-bc3834ca7abd // indirect
	sigs.k8s.io/kustomize/api v0.13.5-0.20230601165947-6ce0bf390ce3 // indirect
	sigs.k8s.io/kustomize/kyaml v0.14.3-0.20230601165947-6ce0bf390ce3 // indirect
	sigs.k8s.io/structured-merge-diff/v4 v4.4.1 // indirect
)

replace github.com/flant/shell-operator => /repo

replace github.com/go-openapi/validate => github.com/flant/go-openapi-validate v0.19.12-flant.0
