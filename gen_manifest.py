#!/usr/bin/env python3
"""Regenerates MANIFEST.json from checks_config.py (single source of truth for what is claimed)."""
import json, os, sys
sys.path.insert(0, os.path.dirname(os.path.abspath(__file__)))
from checks_config import CHECKS, HOOK_COMMITS, NOT_APPLICABLE

ids = [json.loads(l)["id"] for l in open(os.path.join(os.path.dirname(os.path.abspath(__file__)), "properties.jsonl"))]
checks = []
for pid in ids:
    if pid not in CHECKS:
        continue
    c = CHECKS[pid]
    checks.append({
        "property_id": pid,
        "quick_cmd": "./check %s --tier quick" % pid,
        "thorough_cmd": "./check %s --tier thorough" % pid,
        "evidence_file": "evidence/%s.json" % pid,
        "replay_cmd_template": "./check %s --replay {path}" % pid,
        "engine": c.get("engine", "rapid-props"),
        "technique": c["technique"],
        "level_claimed": {"category": c.get("level", "exploration"), "text": c["level_text"], "design_ref": "DESIGN.md section 3, " + pid},
        "level_note": c["level_note"],
    })
na = []
for pid in ids:
    if pid in CHECKS:
        continue
    na.append({"property_id": pid, "reason": NOT_APPLICABLE.get(pid, "no check registered yet: harness for this property is not built (see DESIGN.md section 3 for the plan)")})
engines = {}
for pid, c in CHECKS.items():
    engines.setdefault(c.get("engine", "rapid-props"), []).append(pid)
kinds = {
    "rapid-props": "property-based tests (pgregory.net/rapid v1.3.0): generator -> JSON case -> oracle/reference model; shrunk failing case is the replay file",
    "sched": "rapid-driven cooperative scheduler over verif-tagged yield points in /repo (harness owns the interleaving)",
    "e2e-opkit": "full operator assembled on a fake cluster with scripted hook processes, generated scenarios",
    "shellfw": "generated bash hooks run by real bash+jq against a Go reference dispatcher",
}
m = {
    "version": 1,
    "setup_cmd": "./check --setup",
    "hooks": {
        "guard": "verif",
        "enable": "go test -tags verif (the driver builds every harness with -tags verif against /repo's working tree)",
        "baseline_off_cmd": "cd /repo && go test -mod=mod -vet=off -count=1 -timeout 25m ./...",
        "source_commits": HOOK_COMMITS,
        "add_only": True,
    },
    "engines": [{"name": k, "path": "props/", "serves_properties": v, "kind_free_text": kinds.get(k, k)} for k, v in engines.items()],
    "checks": checks,
    "not_applicable": na,
    "notes": "Every check: ./check <ID> --tier quick|thorough; VERIF_SEED selects the rapid seed. Exit 0 held / 1 VIOLATION / 2 infrastructure or inconclusive. known_findings.json lists genuine defects (open or fixed).",
}
json.dump(m, open(os.path.join(os.path.dirname(os.path.abspath(__file__)), "MANIFEST.json"), "w"), indent=1)
print("claimed:", [c["property_id"] for c in checks])
