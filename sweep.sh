#!/bin/bash
# runs every quick check once with the given VERIF_SEED (default 1) and prints one line per property
seed=${1:-1}; tier=${2:-quick}
for id in $(./check --list); do
  t0=$(date +%s)
  VERIF_SEED=$seed ./check $id --tier $tier > /tmp/sweep-$id.out 2>&1; rc=$?
  echo "$id rc=$rc $(( $(date +%s)-t0 ))s $(grep -v '^{"level' /tmp/sweep-$id.out | grep -c '^INCONCLUSIVE') inconclusive $(grep -v '^{"level' /tmp/sweep-$id.out | grep '^VIOLATION\|^INFRA\|^BUILD' | head -2 | tr '\n' ' ')"
done
