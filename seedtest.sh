#!/bin/bash
# usage: seedtest.sh <patch> <prop> [tier]  -- applies a seeded change to /repo, runs the check, reverts
set -u
patch=$1; prop=$2; tier=${3:-quick}
cd /repo || exit 2
if ! git diff --quiet; then echo "repo dirty"; exit 2; fi
git apply "$patch" || { echo "patch does not apply"; exit 2; }
cd /verif
./check $prop --tier $tier > /tmp/seedtest-$prop.out 2>&1
rc=$?
git -C /repo checkout -- .
echo "rc=$rc"
grep -v '^{"level' /tmp/seedtest-$prop.out | grep "^failure\|^VIOLATION\|^OK\|^INFRA\|^INCONCL\|^BUILD" | cut -c1-400 | head -8
