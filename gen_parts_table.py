#!/usr/bin/env python3
"""rewrites the table between PARTS-BEGIN/PARTS-END in DESIGN.md from checks_config.py"""
import re
from checks_config import CHECKS
rows = ["| property | parts (generated cases per tier, before sharding) |", "|---|---|"]
for pid in sorted(CHECKS):
    cfg = CHECKS[pid]
    parts = ", ".join("%s (quick %d / thorough %d cases)" % (p["part"], p["quick"]["checks"], p["thorough"]["checks"]) for p in cfg["parts"])
    fz = "; ".join("native fuzz %s %ds" % (f["target"], f.get("seconds", 120)) for f in cfg.get("fuzz", []))
    rows.append("| %s | %s%s |" % (pid, parts, ("; " + fz) if fz else ""))
p = "/verif/DESIGN.md"
s = open(p).read()
s = re.sub(r"<!-- PARTS-BEGIN -->.*?<!-- PARTS-END -->", "<!-- PARTS-BEGIN -->\n" + "\n".join(rows) + "\n<!-- PARTS-END -->", s, flags=re.S)
open(p, "w").write(s)
print(len(rows) - 2, "rows")
