#!/bin/bash
# usage: round_test.sh <round> <ID>...  -- verifies each delivered seed in its worktree and runs the quick check against it
# (applies patches to /repo one after another: run nothing else that builds from /repo meanwhile)
r=$1; shift
for id in "$@"; do
  if [ ! -f /tmp/seed$r-$id/patch.diff ]; then echo "=== $id no patch yet"; continue; fi
  echo "=== $id $(./verify_seed$r.sh $id 2>&1 | tail -4 | head -3 | tr '\n' ';')"
  ./seedtest.sh /tmp/seed$r-$id/patch.diff $id | head -2 | cut -c1-280
done
echo "=== DONE"
