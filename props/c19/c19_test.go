package c19

import (
	"bytes"
	"encoding/json"
	"fmt"
	"os"
	"os/exec"
	"path/filepath"
	"strings"
	"testing"

	"pgregory.net/rapid"

	"verif/internal/ev"
	"verif/internal/hk"
)

type Ctx struct {
	Type       string `json:"type"` // onStartup Schedule Synchronization Event Group Validating Mutating Conversion untyped
	Binding    string `json:"binding"`
	WatchEvent string `json:"watchEvent,omitempty"`
	GroupName  string `json:"groupName,omitempty"`
	From       string `json:"from,omitempty"`
	To         string `json:"to,omitempty"`
	// Big: the context is large (an object / an object list of ~200 KiB), as with real snapshots
	Big bool `json:"big,omitempty"`
}

type Handler struct {
	Name   string `json:"name"`
	Status int    `json:"status"`
	// Mode: how a failing handler fails: "return" (return N), "exit" (exit N), "midway" (a failing command
	// followed by more commands: strict mode must abort the handler there), "last" (failing last command).
	Mode string `json:"mode,omitempty"`
	// ReadsStdin: the (successful) handler consumes its standard input (cat, read, kubectl exec -i ...): the hook's
	// stdin is /dev/null as under the operator, this must not disturb the dispatch of the following contexts
	ReadsStdin bool `json:"reads_stdin,omitempty"`
	// ExitZero: the (successful) handler ends with "exit 0" instead of returning: handlers run in a shell of
	// their own, the dispatch of the following contexts goes on
	ExitZero bool `json:"exit_zero,omitempty"`
}

type Case struct {
	Contexts  []Ctx     `json:"contexts"`
	Handlers  []Handler `json:"handlers"`
	ConfigArg bool      `json:"config_arg"`
}

var bindingPool = []string{"pods", "my-binding", "b.v1", "B_2", "every-minute", "x"}
var spacedPool = []string{"Every 20 minutes", "monitor Pods", "Monitor pods in cache tier", "test all pods", "time for backup"}

func repoDir() string {
	if d := os.Getenv("VERIF_REPO"); d != "" {
		return d
	}
	return "/repo"
}

func fnVersion(v string) string { return strings.Replace(v, "/", ".", 1) }

// candidates lists the documented handler names for a context, most specific first (without __main__).
func candidates(c Ctx) []string {
	b := c.Binding
	switch c.Type {
	case "onStartup":
		return []string{"__on_startup"}
	case "Synchronization":
		return []string{"__on_kubernetes::" + b + "::synchronization", "__on_kubernetes::" + b}
	case "Event":
		switch c.WatchEvent {
		case "Added":
			return []string{"__on_kubernetes::" + b + "::added", "__on_kubernetes::" + b + "::added_or_modified", "__on_kubernetes::" + b}
		case "Modified":
			return []string{"__on_kubernetes::" + b + "::modified", "__on_kubernetes::" + b + "::added_or_modified", "__on_kubernetes::" + b}
		case "Deleted":
			return []string{"__on_kubernetes::" + b + "::deleted", "__on_kubernetes::" + b}
		}
	case "Group":
		return []string{"__on_group::" + c.GroupName}
	case "Schedule":
		return []string{"__on_schedule::" + b}
	case "Validating":
		return []string{"__on_validating::" + b}
	case "Mutating":
		return []string{"__on_mutating::" + b}
	case "Conversion":
		return []string{"__on_conversion::" + b + "::" + fnVersion(c.From) + "::" + fnVersion(c.To), "__on_conversion::" + b}
	}
	return nil
}

func genCtx(t *rapid.T) Ctx {
	// "untyped": a context without a type, as hooks with a configVersion v0 configuration receive them (and as
	// derived operators send for bindings of their own): only __main__ is documented for it
	c := Ctx{Type: rapid.SampledFrom([]string{"onStartup", "Schedule", "Synchronization", "Event", "Event", "Event", "Group", "Validating", "Mutating", "Conversion", "untyped"}).Draw(t, "type")}
	c.Binding = rapid.SampledFrom(bindingPool).Draw(t, "binding")
	if rapid.IntRange(0, 11).Draw(t, "spaced") == 0 {
		c.Binding = rapid.SampledFrom(spacedPool).Draw(t, "sbinding")
	}
	switch c.Type {
	case "onStartup":
		c.Binding = "onStartup"
	case "Event":
		c.WatchEvent = rapid.SampledFrom([]string{"Added", "Modified", "Deleted"}).Draw(t, "we")
	case "Group":
		c.GroupName = rapid.SampledFrom([]string{"g1", "main-group", "pods"}).Draw(t, "group")
	case "Conversion":
		c.From = rapid.SampledFrom([]string{"v1alpha1", "stable.example.com/v1alpha1", "v1"}).Draw(t, "from")
		c.To = rapid.SampledFrom([]string{"v1beta1", "stable.example.com/v1", "v2"}).Draw(t, "to")
	}
	if (c.Type == "Event" || c.Type == "Synchronization") && rapid.IntRange(0, 15).Draw(t, "big") == 0 {
		c.Big = true
	}
	return c
}

func gen(t *rapid.T) Case {
	c := Case{}
	n := rapid.IntRange(0, 5).Draw(t, "n")
	if rapid.IntRange(0, 7).Draw(t, "many") == 0 {
		// combined arrays get long: two-digit indexes
		n = rapid.IntRange(9, 23).Draw(t, "nmany")
	} else if n > 3 && rapid.Bool().Draw(t, "fewer") {
		n = 2
	}
	for i := 0; i < n; i++ {
		c.Contexts = append(c.Contexts, genCtx(t))
	}
	seen := map[string]bool{}
	add := func(name string) {
		if seen[name] || strings.ContainsAny(name, " ") {
			return // a bash function name cannot contain a space: such handlers cannot be defined
		}
		seen[name] = true
		st := 0
		mode := ""
		if rapid.IntRange(0, 4).Draw(t, "fail") == 0 {
			st = rapid.SampledFrom([]int{1, 2, 42}).Draw(t, "status")
			mode = rapid.SampledFrom([]string{"return", "return", "exit", "midway", "midway", "last"}).Draw(t, "mode")
		}
		c.Handlers = append(c.Handlers, Handler{Name: name, Status: st, Mode: mode, ReadsStdin: st == 0 && rapid.IntRange(0, 3).Draw(t, "stdin") == 0, ExitZero: st == 0 && rapid.IntRange(0, 3).Draw(t, "exit0") == 0})
	}
	for _, x := range c.Contexts {
		for _, cand := range candidates(x) {
			if rapid.IntRange(0, 2).Draw(t, "def") == 0 {
				add(cand)
			}
		}
	}
	// handlers for contexts that are not present
	if rapid.Bool().Draw(t, "extra") {
		add("__on_kubernetes::other::added")
	}
	if rapid.IntRange(0, 2).Draw(t, "extraStartup") == 0 {
		add("__on_startup")
	}
	if rapid.IntRange(0, 3).Draw(t, "main") > 0 {
		add("__main__")
	}
	c.ConfigArg = rapid.IntRange(0, 7).Draw(t, "config") == 0
	return c
}

func render(c Ctx) map[string]any {
	m := map[string]any{"binding": c.Binding}
	switch c.Type {
	case "onStartup":
	case "untyped":
		m["resourceEvent"] = "add"
		m["resourceKind"] = "Pod"
		m["resourceName"] = "p"
	case "Event":
		m["type"] = "Event"
		m["watchEvent"] = c.WatchEvent
		m["object"] = map[string]any{"kind": "Pod", "metadata": map[string]any{"name": "p"}}
		if c.Big {
			m["object"].(map[string]any)["data"] = map[string]any{"blob": strings.Repeat("0123456789abcdef", 12800)}
		}
	case "Synchronization":
		m["type"] = "Synchronization"
		m["objects"] = []any{}
		if c.Big {
			var objs []any
			for i := 0; i < 400; i++ {
				objs = append(objs, map[string]any{"object": map[string]any{"kind": "Pod", "metadata": map[string]any{"name": fmt.Sprintf("p%d", i), "annotations": map[string]any{"note": strings.Repeat("x", 500)}}}})
			}
			m["objects"] = objs
		}
	case "Group":
		m["type"] = "Group"
		m["groupName"] = c.GroupName
		m["snapshots"] = map[string]any{}
	case "Conversion":
		m["type"] = "Conversion"
		m["fromVersion"] = c.From
		m["toVersion"] = c.To
		m["review"] = map[string]any{}
	default:
		m["type"] = c.Type
	}
	return m
}

const configText = `{"configVersion":"v1","onStartup":1}`

func runCase(c Case) (ev.Info, error) {
	info := ev.Info{}
	dir := hk.Scratch("c19")
	defer os.RemoveAll(dir)
	var arr []any
	for _, x := range c.Contexts {
		arr = append(arr, render(x))
	}
	if arr == nil {
		arr = []any{}
	}
	cb, _ := json.Marshal(arr)
	ctxPath := filepath.Join(dir, "ctx.json")
	logPath := filepath.Join(dir, "log")
	if err := os.WriteFile(ctxPath, cb, 0o644); err != nil {
		return info, fmt.Errorf("harness: %v", err)
	}
	lib, err := os.ReadFile(filepath.Join(repoDir(), "shell_lib.sh"))
	if err != nil {
		return info, fmt.Errorf("harness: %v", err)
	}
	libText := strings.ReplaceAll(string(lib), "/frameworks/shell/", filepath.Join(repoDir(), "frameworks/shell")+"/")
	libPath := filepath.Join(dir, "shell_lib.sh")
	if err := os.WriteFile(libPath, []byte(libText), 0o644); err != nil {
		return info, fmt.Errorf("harness: %v", err)
	}
	var sb strings.Builder
	sb.WriteString("#!/bin/bash\nsource " + libPath + "\n")
	sb.WriteString("function __config__() { echo '" + configText + "'; }\n")
	defined := map[string]int{}
	for _, h := range c.Handlers {
		defined[h.Name] = h.Status
		logLine := fmt.Sprintf("echo \"%s|${BINDING_CONTEXT_CURRENT_INDEX}|$(context::jq -r .binding)\" >> %s", h.Name, logPath)
		after := fmt.Sprintf("echo \"%s|AFTER-FAILED-COMMAND\" >> %s", h.Name, logPath)
		switch {
		case h.Status == 0:
			body := logLine
			if h.ReadsStdin {
				body += "; cat >/dev/null"
			}
			if h.ExitZero {
				// also changes shell state on its way out: nothing of it may reach the next context
				body += "; cd /; set +e; exit 0"
			} else {
				body += "; return 0"
			}
			fmt.Fprintf(&sb, "function %s() { %s; }\n", h.Name, body)
		case h.Mode == "exit":
			fmt.Fprintf(&sb, "function %s() { %s; exit %d; }\n", h.Name, logLine, h.Status)
		case h.Mode == "midway":
			// a command fails in the middle of the handler: under strict mode nothing after it may run
			fmt.Fprintf(&sb, "function %s() { %s; (exit %d); %s; return 0; }\n", h.Name, logLine, h.Status, after)
		case h.Mode == "last":
			fmt.Fprintf(&sb, "function %s() { %s; (exit %d); }\n", h.Name, logLine, h.Status)
		default:
			fmt.Fprintf(&sb, "function %s() { %s; return %d; }\n", h.Name, logLine, h.Status)
		}
	}
	sb.WriteString("hook::run \"$@\"\n")
	hookPath := filepath.Join(dir, "hook.sh")
	if err := os.WriteFile(hookPath, []byte(sb.String()), 0o755); err != nil {
		return info, fmt.Errorf("harness: %v", err)
	}
	args := []string{hookPath}
	if c.ConfigArg {
		args = append(args, "--config")
	}
	cmd := exec.Command("/bin/bash", args...)
	cmd.Env = append(os.Environ(), "BINDING_CONTEXT_PATH="+ctxPath)
	var stdout, stderr bytes.Buffer
	cmd.Stdout, cmd.Stderr = &stdout, &stderr
	runErr := cmd.Run()
	exit := 0
	if runErr != nil {
		ee, ok := runErr.(*exec.ExitError)
		if !ok {
			return info, fmt.Errorf("harness: cannot run bash: %v", runErr)
		}
		exit = ee.ExitCode()
	}
	logBytes, _ := os.ReadFile(logPath)
	var got []string
	for _, l := range strings.Split(strings.TrimSpace(string(logBytes)), "\n") {
		if l != "" {
			got = append(got, l)
		}
	}

	// reference dispatcher
	var want []string
	wantFail := false
	if c.ConfigArg {
		info.Labels = append(info.Labels, "--config")
		if strings.TrimSpace(stdout.String()) != configText {
			return info, fmt.Errorf("hook::run --config printed %q, expected the configuration", stdout.String())
		}
		if exit != 0 {
			return info, fmt.Errorf("hook::run --config exited %d", exit)
		}
		if len(got) > 0 {
			return info, fmt.Errorf("hook::run --config ran handlers %v", got)
		}
		return info, nil
	}
	for i, x := range c.Contexts {
		cands := append(candidates(x), "__main__")
		chosen := ""
		nDefined := 0
		for _, cand := range cands {
			if _, ok := defined[cand]; ok {
				nDefined++
				if chosen == "" {
					chosen = cand
				}
			}
		}
		if strings.Contains(x.Binding, " ") {
			info.Labels = append(info.Labels, "binding-with-space")
		}
		if nDefined >= 2 {
			info.NonTrivial = true
		}
		if chosen == "" {
			wantFail = true
			if i < len(c.Contexts)-1 {
				info.NonTrivial = true
			}
			break
		}
		want = append(want, fmt.Sprintf("%s|%d|%s", chosen, i, x.Binding))
		if defined[chosen] != 0 {
			wantFail = true
			if i < len(c.Contexts)-1 {
				info.NonTrivial = true
			}
			break
		}
	}
	desc := fmt.Sprintf("contexts %s, defined %v", cb, c.Handlers)
	if strings.Join(got, "\n") != strings.Join(want, "\n") {
		return info, fmt.Errorf("handlers invoked %v, expected %v (%s); exit %d; stderr: %s", got, want, desc, exit, tail(stderr.String()))
	}
	if wantFail && exit == 0 {
		return info, fmt.Errorf("run exited 0 although a handler failed or no handler was defined (%s)", desc)
	}
	if !wantFail && exit != 0 {
		return info, fmt.Errorf("run exited %d although every context was handled successfully (%s); stderr: %s", exit, desc, tail(stderr.String()))
	}
	return info, nil
}

func tail(s string) string {
	if len(s) > 400 {
		return s[len(s)-400:]
	}
	return s
}

const rule = "generated bash hooks that source the repository's shell_lib.sh (strict mode) and frameworks/shell, defining a generated subset of the documented handler names for the contexts in play (plus optionally __main__, always __config__), each handler logging name/index/current binding and returning a scripted status (a quarter of the successful handlers also read their standard input, which is /dev/null as under the operator; a quarter end with 'exit 0' after changing directory and shell options); binding-context files with 0-5 contexts (1 in 8 files: 9-23 contexts; 1 in 16 Event/Synchronization contexts ~200 KiB large) of every type (onStartup, Schedule, Synchronization, Event x3, Group, Validating, Mutating, Conversion with short/full versions, and contexts without a type as configVersion v0 hooks get them: only __main__ applies, also when __on_startup is defined), binding names from a pool incl. dots/dashes and, 1 in 12, names with spaces from the documentation; run by real bash+jq; oracle: Go reference dispatcher (first defined candidate most-to-least specific, else __main__; stop non-zero at first failing/undefined). Non-trivial: a context with >= 2 defined candidates, or a failing/undefined context that is not the last."

func TestDispatch(t *testing.T) {
	ev.Main(t, ev.Spec[Case]{Property: "C19", Part: "dispatch", Rule: rule, Gen: gen, Run: runCase})
}
