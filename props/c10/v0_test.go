package c10

import (
	"encoding/json"
	"fmt"
	"testing"

	"pgregory.net/rapid"
	"sigs.k8s.io/yaml"

	"verif/internal/ev"
)

// Legacy (v0) documents: onStartup, schedule, onKubernetesEvent. Valid documents load with the declared bindings in
// declared order; a document with one unknown field (at any level of the v0 grammar) is rejected.

type V0Sched struct {
	Name    string `json:"name,omitempty"`
	Crontab string `json:"crontab"`
	Allow   *bool  `json:"allowFailure,omitempty"`
}

type V0Kube struct {
	Name      string         `json:"name,omitempty"`
	Kind      string         `json:"kind"`
	Event     []string       `json:"event,omitempty"`
	Selector  map[string]any `json:"selector,omitempty"`
	Object    string         `json:"objectName,omitempty"`
	Namespace map[string]any `json:"namespaceSelector,omitempty"`
	Jq        string         `json:"jqFilter,omitempty"`
	Allow     *bool          `json:"allowFailure,omitempty"`
}

type V0Case struct {
	OnStartup *int      `json:"onStartup,omitempty"`
	Schedule  []V0Sched `json:"schedule,omitempty"`
	Kube      []V0Kube  `json:"onKubernetesEvent,omitempty"`
	// Unknown: where one unknown field is put ("" = valid document): top schedule kube selector namespaceSelector
	Unknown string `json:"unknown_at,omitempty"`
	Key     string `json:"unknown_key,omitempty"`
	YAML    bool   `json:"yaml,omitempty"`
}

func genV0(t *rapid.T) V0Case {
	c := V0Case{YAML: rapid.Bool().Draw(t, "yaml")}
	if rapid.Bool().Draw(t, "startup") {
		o := rapid.IntRange(-5, 100).Draw(t, "order")
		c.OnStartup = &o
	}
	for i, n := 0, rapid.IntRange(0, 3).Draw(t, "ns"); i < n; i++ {
		s := V0Sched{Crontab: rapid.SampledFrom(crontabs).Draw(t, "crontab")}
		if rapid.Bool().Draw(t, "sname") {
			s.Name = fmt.Sprintf("s%d", i)
		}
		if rapid.IntRange(0, 2).Draw(t, "saf") == 0 {
			b := rapid.Bool().Draw(t, "safv")
			s.Allow = &b
		}
		c.Schedule = append(c.Schedule, s)
	}
	for i, n := 0, rapid.IntRange(0, 3).Draw(t, "nk"); i < n; i++ {
		k := V0Kube{Kind: rapid.SampledFrom([]string{"pod", "Pod", "configmap", "Deployment"}).Draw(t, "kind")}
		if rapid.Bool().Draw(t, "kname") {
			k.Name = fmt.Sprintf("k%d", i)
		}
		for _, e := range []string{"add", "update", "delete"} {
			if rapid.IntRange(0, 2).Draw(t, "ev"+e) == 0 {
				k.Event = append(k.Event, e)
			}
		}
		if rapid.IntRange(0, 2).Draw(t, "sel") == 0 {
			k.Selector = map[string]any{"matchLabels": map[string]any{"app": "x"}}
			if rapid.Bool().Draw(t, "selexp") {
				k.Selector["matchExpressions"] = []any{map[string]any{"key": "tier", "operator": "In", "values": []any{"cache"}}}
			}
		}
		if rapid.IntRange(0, 3).Draw(t, "obj") == 0 {
			k.Object = "obj-1"
		}
		switch rapid.IntRange(0, 3).Draw(t, "nssel") {
		case 0:
			k.Namespace = map[string]any{"matchNames": []any{"default"}}
		case 1:
			k.Namespace = map[string]any{"any": true}
		}
		if rapid.IntRange(0, 2).Draw(t, "jq") == 0 {
			k.Jq = ".metadata.labels"
		}
		if rapid.IntRange(0, 2).Draw(t, "kaf") == 0 {
			b := rapid.Bool().Draw(t, "kafv")
			k.Allow = &b
		}
		c.Kube = append(c.Kube, k)
	}
	if c.OnStartup == nil && len(c.Schedule) == 0 && len(c.Kube) == 0 {
		o := 1
		c.OnStartup = &o
	}
	if rapid.IntRange(0, 2).Draw(t, "mutate") == 0 {
		c.Unknown = rapid.SampledFrom([]string{"top", "schedule", "kube", "selector", "namespaceSelector"}).Draw(t, "where")
		c.Key = rapid.SampledFrom([]string{"foo", "timezone", "names", "crontabs", "events", "kinds", "queue", "group", "matchLabel", "matchName", "Any", "includeSnapshotsFrom", "configVersions"}).Draw(t, "key")
	}
	return c
}

// doc renders the case; ok=false when the document has no place for the unknown field.
func (c V0Case) doc() (map[string]any, bool) {
	b, _ := json.Marshal(struct {
		OnStartup *int      `json:"onStartup,omitempty"`
		Schedule  []V0Sched `json:"schedule,omitempty"`
		Kube      []V0Kube  `json:"onKubernetesEvent,omitempty"`
	}{c.OnStartup, c.Schedule, c.Kube})
	var m map[string]any
	_ = json.Unmarshal(b, &m)
	firstOf := func(key string) map[string]any {
		l, _ := m[key].([]any)
		if len(l) == 0 {
			return nil
		}
		x, _ := l[0].(map[string]any)
		return x
	}
	var target map[string]any
	switch c.Unknown {
	case "":
		return m, true
	case "top":
		target = m
	case "schedule":
		target = firstOf("schedule")
	case "kube":
		target = firstOf("onKubernetesEvent")
	case "selector", "namespaceSelector":
		if k := firstOf("onKubernetesEvent"); k != nil {
			target, _ = k[c.Unknown].(map[string]any)
		}
	}
	if target == nil {
		return m, false
	}
	if _, exists := target[c.Key]; exists {
		return m, false
	}
	target[c.Key] = []any{"x"}
	return m, true
}

func runV0(c V0Case) (ev.Info, error) {
	info := ev.Info{}
	m, ok := c.doc()
	if !ok {
		info.Labels = append(info.Labels, "mutant-not-applicable")
		return info, nil
	}
	var text []byte
	if c.YAML {
		text, _ = yaml.Marshal(m)
	} else {
		text, _ = json.Marshal(m)
	}
	cfg, err := load(text)
	if err != nil && (len(err.Error()) > 4 && (err.Error()[:5] == "PANIC" || err.Error()[:4] == "HANG")) {
		return info, fmt.Errorf("LoadAndValidate does not end cleanly on %s: %v", text, err)
	}
	if c.Unknown != "" {
		info.NonTrivial = true
		info.Labels = append(info.Labels, "unknown-field-at:"+c.Unknown)
		if err == nil {
			return info, fmt.Errorf("a v0 configuration with the unknown field %q in its %s object was loaded without error: %s", c.Key, c.Unknown, text)
		}
		return info, nil
	}
	if err != nil {
		return info, fmt.Errorf("valid v0 configuration rejected: %v\n%s", err, text)
	}
	if cfg.Version != "v0" {
		return info, fmt.Errorf("a document without configVersion was loaded as version %q", cfg.Version)
	}
	if (cfg.OnStartup != nil) != (c.OnStartup != nil) || (cfg.OnStartup != nil && int(cfg.OnStartup.Order) != *c.OnStartup) {
		return info, fmt.Errorf("onStartup of the loaded configuration differs from the declared one: %s", text)
	}
	if len(cfg.Schedules) != len(c.Schedule) || len(cfg.OnKubernetesEvents) != len(c.Kube) {
		return info, fmt.Errorf("loaded %d schedule and %d kubernetes bindings, declared %d and %d: %s", len(cfg.Schedules), len(cfg.OnKubernetesEvents), len(c.Schedule), len(c.Kube), text)
	}
	for i, s := range c.Schedule {
		got := cfg.Schedules[i]
		if got.ScheduleEntry.Crontab != s.Crontab || (s.Name != "" && got.BindingName != s.Name) || got.AllowFailure != (s.Allow != nil && *s.Allow) {
			return info, fmt.Errorf("schedule binding %d loaded as name %q crontab %q allowFailure %v, declared %+v", i, got.BindingName, got.ScheduleEntry.Crontab, got.AllowFailure, s)
		}
	}
	for i, k := range c.Kube {
		got := cfg.OnKubernetesEvents[i]
		want := map[string]bool{}
		for _, e := range k.Event {
			want[map[string]string{"add": "Added", "update": "Modified", "delete": "Deleted"}[e]] = true
		}
		gotEv := map[string]bool{}
		for _, e := range got.Monitor.EventTypes {
			gotEv[string(e)] = true
		}
		if len(k.Event) == 0 {
			// (the legacy format is not described in the documentation: no default is assumed for a missing list)
			want = gotEv
		}
		if fmt.Sprint(gotEv) != fmt.Sprint(want) || got.Monitor.Kind != k.Kind || (k.Name != "" && got.BindingName != k.Name) || got.AllowFailure != (k.Allow != nil && *k.Allow) || got.Monitor.JqFilter != k.Jq {
			return info, fmt.Errorf("kubernetes binding %d loaded as name %q kind %q events %v allowFailure %v jqFilter %q, declared %+v", i, got.BindingName, got.Monitor.Kind, got.Monitor.EventTypes, got.AllowFailure, got.Monitor.JqFilter, k)
		}
	}
	_ = summarize(cfg)
	info.NonTrivial = len(c.Schedule)+len(c.Kube) > 1
	return info, nil
}

const ruleV0 = "legacy documents without configVersion: onStartup, 0-3 schedule items (name, crontab, allowFailure), 0-3 onKubernetesEvent items (name, kind, event subsets, selector with matchLabels/matchExpressions, objectName, namespaceSelector matchNames/any, jqFilter, allowFailure), as JSON or YAML; valid documents load as v0 with the declared bindings in declared order, names, crontabs, kinds, declared event types, allowFailure and jqFilter; 1 in 3 documents carries one unknown field in the top, schedule, onKubernetesEvent, selector or namespaceSelector object: rejected. Non-trivial: >= 2 bindings, or an unknown field."

func TestV0(t *testing.T) {
	ev.Main(t, ev.Spec[V0Case]{Property: "C10", Part: "v0", Rule: ruleV0, Gen: genV0, Run: runV0})
}
