package c10

import (
	"encoding/base64"
	"encoding/json"
	"fmt"
	"sort"
	"strings"
	"sync/atomic"
	"testing"
	"time"
	"unicode/utf8"

	"github.com/flant/shell-operator/pkg/hook/config"
	"gopkg.in/yaml.v3"
	"pgregory.net/rapid"

	"verif/internal/ev"
	"verif/internal/hcfg"
	"verif/internal/kit"
)

type Case struct {
	D      hcfg.D `json:"d"`
	Mutant string `json:"mutant,omitempty"` // "" = valid document
	// NearKey: for the unknown-*-field mutants, an unknown key derived from a documented one ("" = a fixed unrelated key)
	NearKey string `json:"near_key,omitempty"`
}

// documented keys per object kind (from the v1 schema); a near-miss of one of them is an unknown field
var knownKeys = map[string][]string{
	"top":        {"configVersion", "onStartup", "schedule", "kubernetes", "kubernetesValidating", "kubernetesMutating", "kubernetesCustomResourceConversion", "settings"},
	"schedule":   {"name", "crontab", "allowFailure", "includeSnapshotsFrom", "queue", "group"},
	"kubernetes": {"name", "apiVersion", "kind", "includeSnapshotsFrom", "queue", "jqFilter", "keepFullObjectsInMemory", "allowFailure", "executeHookOnSynchronization", "waitForSynchronization", "resynchronizationPeriod", "nameSelector", "labelSelector", "fieldSelector", "group", "namespace", "watchEvent", "executeHookOnEvent"},
	"validating": {"name", "group", "includeSnapshotsFrom", "failurePolicy", "sideEffects", "timeoutSeconds", "matchConditions", "labelSelector", "namespace", "rules"},
}

func nearMiss(t *rapid.T, kind string) string {
	keys := knownKeys[kind]
	k := rapid.SampledFrom(keys).Draw(t, "nearOf")
	var out string
	switch rapid.IntRange(0, 4).Draw(t, "nearHow") {
	case 0:
		out = k + "s"
	case 1:
		out = "x" + k
	case 2:
		out = strings.ToUpper(k[:1]) + k[1:]
	case 3:
		out = k[:len(k)-1]
	default:
		out = k + "_"
	}
	for _, all := range knownKeys {
		for _, x := range all {
			if x == out {
				return ""
			}
		}
	}
	return out
}

var crontabs = []string{"* * * * *", "*/5 * * * *", "0 12 * * 1", "30 4 1 * *", "*/10 * * * * *", "@hourly"}
var groups = []string{"", "", "g1", "g2"}
var queuesPool = []string{"", "", "q1", "q-2"}

func genLabelSel(t *rapid.T) *hcfg.LabelSel {
	ls := &hcfg.LabelSel{}
	if rapid.Bool().Draw(t, "ml") {
		ls.MatchLabels = map[string]string{"app": rapid.SampledFrom([]string{"x", "y", ""}).Draw(t, "mlv")}
	}
	if ls.MatchLabels == nil || rapid.Bool().Draw(t, "me") {
		op := rapid.SampledFrom([]string{"In", "NotIn", "Exists", "DoesNotExist"}).Draw(t, "op")
		e := hcfg.LabelExpr{Key: "tier", Operator: op}
		if op == "In" || op == "NotIn" {
			e.Values = []string{"a", "b"}[:rapid.IntRange(1, 2).Draw(t, "nv")]
		}
		ls.MatchExpressions = []hcfg.LabelExpr{e}
	}
	return ls
}

func genD(t *rapid.T) hcfg.D {
	d := hcfg.D{}
	if rapid.Bool().Draw(t, "onStartup") {
		d.OnStartup = hcfg.I(rapid.IntRange(-10, 1000).Draw(t, "order"))
	}
	nk := rapid.IntRange(0, 4).Draw(t, "nk")
	unnamedUsed := false
	var kubeNames []string
	for i := 0; i < nk; i++ {
		k := hcfg.Kube{Kind: rapid.SampledFrom([]string{"Pod", "ConfigMap", "Deployment", "CronTab"}).Draw(t, "kind")}
		if !unnamedUsed && rapid.IntRange(0, 4).Draw(t, "unnamed") == 0 {
			unnamedUsed = true
		} else {
			k.Name = fmt.Sprintf("k%d", i)
		}
		kubeNames = append(kubeNames, hcfg.KubeName(k))
		if rapid.Bool().Draw(t, "apiv") {
			k.ApiVersion = rapid.SampledFrom([]string{"v1", "apps/v1", "stable.example.com/v1"}).Draw(t, "apiVersion")
		}
		switch rapid.IntRange(0, 3).Draw(t, "events") {
		case 1:
			evs := []string{}
			for _, e := range []string{"Added", "Modified", "Deleted"} {
				if rapid.Bool().Draw(t, "ev"+e) {
					evs = append(evs, e)
				}
			}
			k.Events = &evs
		case 2:
			evs := []string{}
			k.Events = &evs
		}
		if rapid.IntRange(0, 3).Draw(t, "watchEvent") == 0 {
			// the deprecated spelling, alone or next to executeHookOnEvent (which then has priority, also when empty)
			evs := []string{}
			for _, e := range []string{"Added", "Modified", "Deleted"} {
				if rapid.Bool().Draw(t, "wev"+e) {
					evs = append(evs, e)
				}
			}
			k.WatchEvents = &evs
		}
		if rapid.IntRange(0, 2).Draw(t, "onsync") == 0 {
			k.OnSync = hcfg.B(rapid.Bool().Draw(t, "onsyncv"))
		}
		if rapid.IntRange(0, 2).Draw(t, "keep") == 0 {
			k.KeepFull = hcfg.B(rapid.Bool().Draw(t, "keepv"))
		}
		if rapid.IntRange(0, 2).Draw(t, "af") == 0 {
			k.AllowFail = hcfg.B(rapid.Bool().Draw(t, "afv"))
		}
		if rapid.IntRange(0, 2).Draw(t, "namesel") == 0 {
			k.NameSel = &hcfg.NameSel{MatchNames: []string{"n1", "n2"}[:rapid.IntRange(1, 2).Draw(t, "nn")]}
		}
		if rapid.IntRange(0, 2).Draw(t, "labelsel") == 0 {
			k.LabelSel = genLabelSel(t)
		}
		if k.NameSel == nil && rapid.IntRange(0, 3).Draw(t, "fieldsel") == 0 {
			k.FieldSel = &hcfg.FieldSel{MatchExpressions: []hcfg.FieldExpr{{Field: rapid.SampledFrom([]string{"status.phase", "metadata.name"}).Draw(t, "ff"), Operator: rapid.SampledFrom([]string{"=", "==", "Equals", "!=", "NotEquals"}).Draw(t, "fo"), Value: "Running"}}}
		}
		switch rapid.IntRange(0, 3).Draw(t, "ns") {
		case 1:
			k.Namespace = &hcfg.NsSel{NameSelector: &hcfg.NameSel{MatchNames: []string{"default", "kube-system"}[:rapid.IntRange(1, 2).Draw(t, "nns")]}}
		case 2:
			k.Namespace = &hcfg.NsSel{LabelSelector: genLabelSel(t)}
		}
		k.JqFilter = rapid.SampledFrom([]string{"", "", ".metadata.labels", "{a: .spec.a}"}).Draw(t, "jq")
		k.Queue = rapid.SampledFrom(queuesPool).Draw(t, "queue")
		k.Group = rapid.SampledFrom(groups).Draw(t, "group")
		d.Kube = append(d.Kube, k)
	}
	incl := func(label string) []string {
		var out []string
		for _, n := range kubeNames {
			if rapid.IntRange(0, 3).Draw(t, label) == 0 {
				out = append(out, n)
			}
		}
		return out
	}
	for i := range d.Kube {
		d.Kube[i].Includes = incl("kinc")
	}
	ns := rapid.IntRange(0, 3).Draw(t, "nsched")
	for i := 0; i < ns; i++ {
		s := hcfg.Sched{Crontab: rapid.SampledFrom(crontabs).Draw(t, "crontab")}
		if rapid.IntRange(0, 3).Draw(t, "sname") > 0 {
			s.Name = fmt.Sprintf("s%d", i)
		}
		if rapid.IntRange(0, 2).Draw(t, "saf") == 0 {
			s.AllowFailure = hcfg.B(rapid.Bool().Draw(t, "safv"))
		}
		s.Queue = rapid.SampledFrom(queuesPool).Draw(t, "squeue")
		s.Group = rapid.SampledFrom(groups).Draw(t, "sgroup")
		s.Includes = incl("sinc")
		d.Schedules = append(d.Schedules, s)
	}
	genAdm := func(prefix string, i int, validating bool) hcfg.Adm {
		a := hcfg.Adm{Name: fmt.Sprintf("%s%d.example.com", prefix, i)}
		if !validating && rapid.Bool().Draw(t, "plainname") {
			a.Name = fmt.Sprintf("Mutate %s/%d", prefix, i)
		}
		nr := rapid.IntRange(1, 2).Draw(t, "nrules")
		for r := 0; r < nr; r++ {
			rule := hcfg.AdmRule{
				Operations:  []string{rapid.SampledFrom([]string{"CREATE", "UPDATE", "DELETE", "*"}).Draw(t, "rop")},
				APIGroups:   []string{rapid.SampledFrom([]string{"", "apps", "stable.example.com"}).Draw(t, "rgroup")},
				APIVersions: []string{rapid.SampledFrom([]string{"v1", "*"}).Draw(t, "rver")},
				Resources:   []string{rapid.SampledFrom([]string{"pods", "crontabs", "deployments"}).Draw(t, "rres")},
			}
			if rapid.Bool().Draw(t, "rscope") {
				rule.Scope = rapid.SampledFrom([]string{"Cluster", "Namespaced", "*"}).Draw(t, "rscopev")
			}
			a.Rules = append(a.Rules, rule)
		}
		if rapid.Bool().Draw(t, "fp") {
			a.FailurePolicy = rapid.SampledFrom([]string{"Ignore", "Fail"}).Draw(t, "fpv")
		}
		if rapid.Bool().Draw(t, "se") {
			a.SideEffects = rapid.SampledFrom([]string{"None", "NoneOnDryRun"}).Draw(t, "sev")
		}
		if rapid.Bool().Draw(t, "to") {
			a.Timeout = hcfg.I(rapid.IntRange(1, 30).Draw(t, "tov"))
		}
		if rapid.IntRange(0, 3).Draw(t, "als") == 0 {
			a.LabelSel = genLabelSel(t)
		}
		if rapid.IntRange(0, 3).Draw(t, "ans") == 0 {
			a.Namespace = &hcfg.NsSel{LabelSelector: genLabelSel(t)}
		}
		a.Group = rapid.SampledFrom(groups).Draw(t, "agroup")
		a.Includes = incl("ainc")
		return a
	}
	for i, n := 0, rapid.IntRange(0, 2).Draw(t, "nval"); i < n; i++ {
		d.Validating = append(d.Validating, genAdm("val", i, true))
	}
	for i, n := 0, rapid.IntRange(0, 2).Draw(t, "nmut"); i < n; i++ {
		d.Mutating = append(d.Mutating, genAdm("mut", i, false))
	}
	for i, n := 0, rapid.IntRange(0, 2).Draw(t, "nconv"); i < n; i++ {
		cv := hcfg.Conv{CrdName: "crontabs.stable.example.com", Group: rapid.SampledFrom(groups).Draw(t, "cgroup"), Includes: incl("cinc")}
		cv.Name = fmt.Sprintf("conv%d", i)
		for r, nr := 0, rapid.IntRange(1, 3).Draw(t, "ncr"); r < nr; r++ {
			cv.Conversions = append(cv.Conversions, hcfg.ConvRule{From: rapid.SampledFrom([]string{"v1alpha1", "v1beta1", "stable.example.com/v1"}).Draw(t, "cf"), To: rapid.SampledFrom([]string{"v1beta1", "v1", "stable.example.com/v2"}).Draw(t, "ct")})
		}
		d.Conversion = append(d.Conversion, cv)
	}
	if rapid.IntRange(0, 3).Draw(t, "settings") == 0 {
		d.Settings = &hcfg.Settings{Interval: rapid.SampledFrom([]string{"30s", "100ms", "1m30s", "2h"}).Draw(t, "interval"), Burst: hcfg.I(rapid.IntRange(1, 5).Draw(t, "burst"))}
	}
	if d.OnStartup == nil && len(d.Kube)+len(d.Schedules)+len(d.Validating)+len(d.Mutating)+len(d.Conversion) == 0 && d.Settings == nil {
		d.OnStartup = hcfg.I(1)
	}
	return d
}

var mutants = []string{"zero-step-crontab", "unknown-top-field", "unknown-schedule-field", "unknown-kubernetes-field", "unknown-validating-field", "unknown-matchcondition-field", "invalid-selector-kubernetes", "invalid-selector-validating", "invalid-selector-mutating", "invalid-ns-selector-validating", "invalid-ns-selector-mutating", "onStartup-string", "schedule-object", "allowFailure-string", "bad-crontab", "include-unknown", "include-ambiguous", "selector-operator", "version-v2", "missing-kind", "missing-crontab", "missing-validating-name", "bad-interval", "bad-watch-event", "bad-field-operator", "validating-name-not-qualified", "duplicate-validating-name", "empty-schedule-list", "empty-includes"}

func gen(t *rapid.T) Case {
	c := Case{D: genD(t)}
	if rapid.Bool().Draw(t, "mutate") {
		c.Mutant = rapid.SampledFrom(mutants).Draw(t, "mutant")
		if kind := strings.TrimSuffix(strings.TrimPrefix(c.Mutant, "unknown-"), "-field"); len(knownKeys[kind]) > 0 && rapid.Bool().Draw(t, "near") {
			c.NearKey = nearMiss(t, kind)
		}
	}
	return c
}

func first(m map[string]any, key string) (map[string]any, bool) {
	l, ok := m[key].([]any)
	if !ok || len(l) == 0 {
		return nil, false
	}
	x, ok := l[0].(map[string]any)
	return x, ok
}

// mutate applies a single fault to the rendered document; ok=false when the document has no place for it.
// setUnknown adds an unknown key to an object: the fixed unrelated one, or the near-miss of a documented key
// carrying a value that would be valid for the documented key.
func setUnknown(obj map[string]any, near, fixed string, fixedVal any) {
	if near == "" {
		obj[fixed] = fixedVal
		return
	}
	for k, v := range obj {
		if strings.EqualFold(strings.Trim(near, "xs_"), strings.Trim(k, "xs_")) || strings.HasPrefix(k, near) || strings.HasPrefix(near, k) {
			obj[near] = kit.DeepCopyJSON(v)
			return
		}
	}
	switch {
	case strings.Contains(strings.ToLower(near), "event"):
		obj[near] = []any{"Added"}
	case strings.Contains(strings.ToLower(near), "allowfailure"), strings.Contains(strings.ToLower(near), "synchronization"), strings.Contains(strings.ToLower(near), "keepfull"):
		obj[near] = true
	default:
		obj[near] = "x"
	}
}

func mutate(m map[string]any, mutant string, near string) bool {
	switch mutant {
	case "unknown-top-field":
		setUnknown(m, near, "onShutdown", 1.0)
	case "unknown-schedule-field":
		s, ok := first(m, "schedule")
		if !ok {
			return false
		}
		setUnknown(s, near, "timezone", "UTC")
	case "unknown-kubernetes-field":
		k, ok := first(m, "kubernetes")
		if !ok {
			return false
		}
		setUnknown(k, near, "watch", true)
	case "unknown-validating-field":
		v, ok := first(m, "kubernetesValidating")
		if !ok {
			return false
		}
		setUnknown(v, near, "url", "https://x")
	case "unknown-matchcondition-field":
		v, ok := first(m, "kubernetesValidating")
		if !ok {
			return false
		}
		v["matchConditions"] = []any{map[string]any{"name": "c1", "expression": "true", "message": "x"}}
	case "onStartup-string":
		m["onStartup"] = "first"
	case "schedule-object":
		m["schedule"] = map[string]any{"crontab": "* * * * *"}
	case "allowFailure-string":
		s, ok := first(m, "schedule")
		if !ok {
			return false
		}
		s["allowFailure"] = "yes"
	case "bad-crontab":
		s, ok := first(m, "schedule")
		if !ok {
			return false
		}
		s["crontab"] = "every minute"
	case "zero-step-crontab":
		s, ok := first(m, "schedule")
		if !ok {
			return false
		}
		// a zero step in any field and any spelling the cron library reads as 0
		zs := []string{"*/0 * * * *", "*/00 * * * *", "*/+0 * * * *", "*/-0 * * * *", "5,10-20/00 * * * *", "* */0 * * *", "* * 1-5/000 * *", "0 0 * */0 *", "*/5 * * * */0", "*/0 * * * * *"}
		// (which one: a function of the document, so that the case stays a pure function of the generated values)
		doc, _ := json.Marshal(m)
		k := 0
		for _, b := range doc {
			k += int(b)
		}
		s["crontab"] = zs[k%len(zs)]
	case "include-unknown":
		s, ok := first(m, "schedule")
		if !ok {
			s, ok = first(m, "kubernetes")
			if !ok {
				return false
			}
		}
		s["includeSnapshotsFrom"] = []any{"no-such-binding"}
	case "include-ambiguous":
		l, ok := m["kubernetes"].([]any)
		if !ok || len(l) < 2 {
			return false
		}
		a, b := l[0].(map[string]any), l[1].(map[string]any)
		a["name"], b["name"] = "same", "same"
		// remove other references to the old names, then include the ambiguous one
		for _, key := range []string{"kubernetes", "schedule", "kubernetesValidating", "kubernetesMutating", "kubernetesCustomResourceConversion"} {
			if ll, ok := m[key].([]any); ok {
				for _, x := range ll {
					delete(x.(map[string]any), "includeSnapshotsFrom")
				}
			}
		}
		a["includeSnapshotsFrom"] = []any{"same"}
	case "selector-operator":
		k, ok := first(m, "kubernetes")
		if !ok {
			return false
		}
		k["labelSelector"] = map[string]any{"matchExpressions": []any{map[string]any{"key": "a", "operator": "Like", "values": []any{"x"}}}}
	case "invalid-selector-kubernetes", "invalid-selector-validating", "invalid-selector-mutating", "invalid-ns-selector-validating", "invalid-ns-selector-mutating":
		// selectors that pass the schema but are not valid label selectors: In without values, Exists with values
		key := map[string]string{"kubernetes": "kubernetes", "validating": "kubernetesValidating", "mutating": "kubernetesMutating"}[mutant[strings.LastIndex(mutant, "-")+1:]]
		b, ok := first(m, key)
		if !ok {
			return false
		}
		bad := map[string]any{"matchExpressions": []any{map[string]any{"key": "a", "operator": "In"}}}
		if len(near)%2 == 1 {
			bad = map[string]any{"matchExpressions": []any{map[string]any{"key": "a", "operator": "Exists", "values": []any{"x"}}}}
		}
		if strings.HasPrefix(mutant, "invalid-ns-selector") {
			b["namespace"] = map[string]any{"labelSelector": bad}
		} else {
			b["labelSelector"] = bad
		}
	case "version-v2":
		m["configVersion"] = "v2"
	case "missing-kind":
		k, ok := first(m, "kubernetes")
		if !ok {
			return false
		}
		delete(k, "kind")
	case "missing-crontab":
		s, ok := first(m, "schedule")
		if !ok {
			return false
		}
		delete(s, "crontab")
	case "missing-validating-name":
		v, ok := first(m, "kubernetesValidating")
		if !ok {
			return false
		}
		delete(v, "name")
	case "bad-interval":
		m["settings"] = map[string]any{"executionMinInterval": "30ks", "executionBurst": 1.0}
	case "bad-watch-event":
		k, ok := first(m, "kubernetes")
		if !ok {
			return false
		}
		k["executeHookOnEvent"] = []any{"Added", "Patched"}
	case "bad-field-operator":
		k, ok := first(m, "kubernetes")
		if !ok {
			return false
		}
		delete(k, "nameSelector")
		k["fieldSelector"] = map[string]any{"matchExpressions": []any{map[string]any{"field": "status.phase", "operator": "~=", "value": "x"}}}
	case "validating-name-not-qualified":
		v, ok := first(m, "kubernetesValidating")
		if !ok {
			return false
		}
		v["name"] = "Not Qualified"
	case "duplicate-validating-name":
		l, ok := m["kubernetesValidating"].([]any)
		if !ok || len(l) < 2 {
			return false
		}
		l[1].(map[string]any)["name"] = l[0].(map[string]any)["name"]
	case "empty-schedule-list":
		m["schedule"] = []any{}
	case "empty-includes":
		s, ok := first(m, "schedule")
		if !ok {
			return false
		}
		s["includeSnapshotsFrom"] = []any{}
	default:
		return false
	}
	return true
}

// ---------- summaries ----------

func set(l []string) []string { return hcfg.SortedSet(l) }

func summarize(c *config.HookConfig) map[string]any {
	out := map[string]any{"version": c.Version}
	if c.OnStartup != nil {
		out["onStartup"] = map[string]any{"order": c.OnStartup.Order, "name": c.OnStartup.BindingName, "allowFailure": c.OnStartup.AllowFailure}
	}
	var scheds []any
	for _, s := range c.Schedules {
		scheds = append(scheds, map[string]any{"name": s.BindingName, "crontab": s.ScheduleEntry.Crontab, "allowFailure": s.AllowFailure, "queue": s.Queue, "group": s.Group, "includes": set(s.IncludeSnapshotsFrom)})
	}
	out["schedule"] = scheds
	var kubes []any
	for _, k := range c.OnKubernetesEvents {
		evs := []string{}
		for _, e := range k.Monitor.EventTypes {
			evs = append(evs, string(e))
		}
		m := map[string]any{"name": k.BindingName, "allowFailure": k.AllowFailure, "queue": k.Queue, "group": k.Group, "includes": set(k.IncludeSnapshotsFrom),
			"onSync": k.ExecuteHookOnSynchronization, "keepFull": k.KeepFullObjectsInMemory, "monitorKeepFull": k.Monitor.KeepFullObjectsInMemory,
			"kind": k.Monitor.Kind, "apiVersion": k.Monitor.ApiVersion, "jqFilter": k.Monitor.JqFilter, "events": evs}
		if k.Monitor.NameSelector != nil {
			m["names"] = k.Monitor.NameSelector.MatchNames
		}
		if k.Monitor.LabelSelector != nil {
			m["labelSelector"] = k.Monitor.LabelSelector
		}
		if k.Monitor.FieldSelector != nil {
			m["fieldSelector"] = k.Monitor.FieldSelector
		}
		if ns := k.Monitor.NamespaceSelector; ns != nil {
			if ns.NameSelector != nil {
				m["nsNames"] = ns.NameSelector.MatchNames
			}
			if ns.LabelSelector != nil {
				m["nsLabelSelector"] = ns.LabelSelector
			}
		}
		kubes = append(kubes, m)
	}
	out["kubernetes"] = kubes
	var vals, muts, convs []any
	for _, v := range c.KubernetesValidating {
		w := v.Webhook.ValidatingWebhook
		vals = append(vals, map[string]any{"name": v.BindingName, "webhookName": w.Name, "group": v.Group, "includes": set(v.IncludeSnapshotsFrom), "rules": w.Rules, "failurePolicy": w.FailurePolicy, "sideEffects": w.SideEffects, "timeout": w.TimeoutSeconds, "objectSelector": w.ObjectSelector, "namespaceSelector": w.NamespaceSelector})
	}
	for _, v := range c.KubernetesMutating {
		w := v.Webhook.MutatingWebhook
		muts = append(muts, map[string]any{"name": v.BindingName, "webhookName": w.Name, "group": v.Group, "includes": set(v.IncludeSnapshotsFrom), "rules": w.Rules, "failurePolicy": w.FailurePolicy, "sideEffects": w.SideEffects, "timeout": w.TimeoutSeconds, "objectSelector": w.ObjectSelector, "namespaceSelector": w.NamespaceSelector})
	}
	for _, v := range c.KubernetesConversion {
		convs = append(convs, map[string]any{"name": v.BindingName, "group": v.Group, "includes": set(v.IncludeSnapshotsFrom), "crd": v.Webhook.CrdName, "rules": v.Webhook.Rules})
	}
	out["validating"], out["mutating"], out["conversion"] = vals, muts, convs
	if c.Settings != nil {
		out["settings"] = map[string]any{"interval": c.Settings.ExecutionMinInterval.String(), "burst": c.Settings.ExecutionBurst}
	}
	return out
}

func labelSelMap(ls *hcfg.LabelSel) any {
	if ls == nil {
		return nil
	}
	m := map[string]any{}
	if ls.MatchLabels != nil {
		m["matchLabels"] = ls.MatchLabels
	}
	if ls.MatchExpressions != nil {
		var es []any
		for _, e := range ls.MatchExpressions {
			x := map[string]any{"key": e.Key, "operator": e.Operator}
			if e.Values != nil {
				x["values"] = e.Values
			}
			es = append(es, x)
		}
		m["matchExpressions"] = es
	}
	return m
}

func orDefault[T any](p *T, d T) T {
	if p == nil {
		return d
	}
	return *p
}

// expected computes the effective configuration the documentation promises for D.
func expected(d hcfg.D) map[string]any {
	out := map[string]any{"version": "v1"}
	if d.OnStartup != nil {
		out["onStartup"] = map[string]any{"order": float64(*d.OnStartup), "name": "onStartup", "allowFailure": false}
	}
	var scheds []any
	for _, s := range d.Schedules {
		scheds = append(scheds, map[string]any{"name": hcfg.SchedName(s), "crontab": s.Crontab, "allowFailure": orDefault(s.AllowFailure, false), "queue": hcfg.QueueName(s.Queue), "group": s.Group, "includes": d.EffectiveIncludes(s.Includes, s.Group)})
	}
	out["schedule"] = scheds
	var kubes []any
	for _, k := range d.Kube {
		evs := []string{"Added", "Modified", "Deleted"}
		if k.Events != nil {
			evs = *k.Events
		} else if k.WatchEvents != nil {
			evs = *k.WatchEvents
		}
		keep := orDefault(k.KeepFull, true)
		m := map[string]any{"name": hcfg.KubeName(k), "allowFailure": orDefault(k.AllowFail, false), "queue": hcfg.QueueName(k.Queue), "group": k.Group, "includes": d.EffectiveIncludes(k.Includes, k.Group),
			"onSync": orDefault(k.OnSync, true), "keepFull": keep, "monitorKeepFull": keep,
			"kind": k.Kind, "apiVersion": k.ApiVersion, "jqFilter": k.JqFilter, "events": evs}
		if k.NameSel != nil {
			m["names"] = k.NameSel.MatchNames
		}
		if k.LabelSel != nil {
			m["labelSelector"] = labelSelMap(k.LabelSel)
		}
		if k.FieldSel != nil {
			var es []any
			for _, e := range k.FieldSel.MatchExpressions {
				es = append(es, map[string]any{"field": e.Field, "operator": e.Operator, "value": e.Value})
			}
			m["fieldSelector"] = map[string]any{"matchExpressions": es}
		}
		if k.Namespace != nil {
			if k.Namespace.NameSelector != nil {
				m["nsNames"] = k.Namespace.NameSelector.MatchNames
			}
			if k.Namespace.LabelSelector != nil {
				m["nsLabelSelector"] = labelSelMap(k.Namespace.LabelSelector)
			}
		}
		kubes = append(kubes, m)
	}
	out["kubernetes"] = kubes
	adm := func(l []hcfg.Adm) []any {
		var res []any
		for _, a := range l {
			var rules []any
			for _, r := range a.Rules {
				x := map[string]any{"operations": r.Operations, "apiGroups": r.APIGroups, "apiVersions": r.APIVersions, "resources": r.Resources}
				if r.Scope != "" {
					x["scope"] = r.Scope
				}
				rules = append(rules, x)
			}
			fp := a.FailurePolicy
			if fp == "" {
				fp = "Fail"
			}
			se := a.SideEffects
			if se == "" {
				se = "None"
			}
			m := map[string]any{"name": a.Name, "webhookName": a.Name, "group": a.Group, "includes": d.EffectiveIncludes(a.Includes, a.Group), "rules": rules, "failurePolicy": fp, "sideEffects": se, "timeout": float64(orDefault(a.Timeout, 10)), "objectSelector": labelSelMap(a.LabelSel), "namespaceSelector": nil}
			if a.Namespace != nil {
				m["namespaceSelector"] = labelSelMap(a.Namespace.LabelSelector)
			}
			res = append(res, m)
		}
		return res
	}
	out["validating"], out["mutating"] = adm(d.Validating), adm(d.Mutating)
	var convs []any
	for _, cv := range d.Conversion {
		var rules []any
		for _, r := range cv.Conversions {
			rules = append(rules, map[string]any{"fromVersion": r.From, "toVersion": r.To})
		}
		convs = append(convs, map[string]any{"name": cv.Name, "group": cv.Group, "includes": d.EffectiveIncludes(cv.Includes, cv.Group), "crd": cv.CrdName, "rules": rules})
	}
	out["conversion"] = convs
	if d.Settings != nil {
		iv, _ := time.ParseDuration(d.Settings.Interval)
		out["settings"] = map[string]any{"interval": iv.String(), "burst": float64(*d.Settings.Burst)}
	}
	return out
}

var hung atomic.Int32

// load runs LoadAndValidate with a watchdog: a call that does not return within 3 s is reported as HANG
// (its goroutine keeps spinning, so only a few hangs are tolerated per process).
func load(text []byte) (*config.HookConfig, error) {
	if hung.Load() >= 3 {
		return nil, fmt.Errorf("HANG: earlier calls of LoadAndValidate in this process never returned")
	}
	type res struct {
		cfg *config.HookConfig
		err error
	}
	ch := make(chan res, 1)
	go func() {
		var r res
		defer func() {
			if p := recover(); p != nil {
				r = res{nil, fmt.Errorf("PANIC: %v", p)}
			}
			ch <- r
		}()
		cfg := &config.HookConfig{}
		if e := cfg.LoadAndValidate(text); e != nil {
			r = res{nil, e}
			return
		}
		r = res{cfg, nil}
	}()
	select {
	case r := <-ch:
		return r.cfg, r.err
	case <-time.After(8 * time.Second):
		hung.Add(1)
		return nil, fmt.Errorf("HANG: LoadAndValidate did not return within 8s")
	}
}

func diffJSON(a, b string) string {
	var x, y map[string]any
	_ = json.Unmarshal([]byte(a), &x)
	_ = json.Unmarshal([]byte(b), &y)
	var d []string
	for k := range x {
		if kit.Canon(x[k]) != kit.Canon(y[k]) {
			d = append(d, fmt.Sprintf("%s: %s vs %s", k, kit.Canon(x[k]), kit.Canon(y[k])))
		}
	}
	for k := range y {
		if _, ok := x[k]; !ok {
			d = append(d, fmt.Sprintf("%s: absent vs %s", k, kit.Canon(y[k])))
		}
	}
	sort.Strings(d)
	return strings.Join(d, "; ")
}

func runCase(c Case) (ev.Info, error) {
	info := ev.Info{}
	doc := c.D.Map()
	kinds := 0
	for _, k := range []string{"onStartup", "schedule", "kubernetes", "kubernetesValidating", "kubernetesMutating", "kubernetesCustomResourceConversion"} {
		if _, ok := doc[k]; ok {
			kinds++
		}
	}
	if c.Mutant != "" {
		if !mutate(doc, c.Mutant, c.NearKey) {
			info.Labels = append(info.Labels, "mutant-not-applicable")
			return info, nil
		}
		info.NonTrivial = true
		info.Labels = append(info.Labels, "mutant:"+c.Mutant)
		jb, _ := json.Marshal(doc)
		yb, _ := yaml.Marshal(doc)
		for name, text := range map[string][]byte{"json": jb, "yaml": yb} {
			_, err := load(text)
			if err == nil {
				return info, fmt.Errorf("invalid configuration (%s, %s) was loaded without error:\n%s", c.Mutant, name, text)
			}
			if strings.HasPrefix(err.Error(), "PANIC") || strings.HasPrefix(err.Error(), "HANG") {
				return info, fmt.Errorf("loading does not end cleanly (%s, %s): %v\n%s", c.Mutant, name, err, text)
			}
		}
		return info, nil
	}
	hasGroupOrInclude := false
	for _, k := range c.D.Kube {
		if k.Group != "" || len(k.Includes) > 0 {
			hasGroupOrInclude = true
		}
	}
	for _, s := range c.D.Schedules {
		if s.Group != "" || len(s.Includes) > 0 {
			hasGroupOrInclude = true
		}
	}
	info.NonTrivial = kinds >= 2 || hasGroupOrInclude
	jb, _ := json.Marshal(doc)
	yb, _ := yaml.Marshal(doc)
	cj, err := load(jb)
	if err != nil {
		return info, fmt.Errorf("valid configuration rejected (json): %v\n%s", err, jb)
	}
	cy, err := load(yb)
	if err != nil {
		return info, fmt.Errorf("valid configuration rejected (yaml) although its JSON form loads: %v\n%s", err, yb)
	}
	sj, sy := kit.Canon(summarize(cj)), kit.Canon(summarize(cy))
	if sj != sy {
		return info, fmt.Errorf("JSON and YAML forms of one document load differently: %s", diffJSON(sj, sy))
	}
	want := kit.Canon(expected(c.D))
	if sj != want {
		return info, fmt.Errorf("effective configuration differs from the documented one (loaded vs expected): %s\ndocument: %s", diffJSON(sj, want), jb)
	}
	return info, nil
}

const rule = "descriptions of v1 hook configurations built from the documented grammar (onStartup, 0-3 schedules, 0-4 kubernetes bindings with every documented option, validating/mutating/conversion bindings, settings, groups and includes among declared names), rendered as JSON and as YAML: both must load, load identically and equal the documented effective configuration (defaults, order, include sets); half of the cases apply one of 29 single-fault mutations (among them a crontab whose step is zero, in any field and in the spellings 0, 00, 000, +0, -0), which must be rejected in both renderings without panic and without hanging (watchdog). Non-trivial: >= 2 binding kinds or any group/include (valid), every applicable mutant."

func TestConfig(t *testing.T) {
	ev.Main(t, ev.Spec[Case]{Property: "C10", Part: "config", Rule: rule, Gen: gen, Run: runCase})
}

// ---------- arbitrary bytes ----------

type BytesCase struct {
	Text string `json:"text,omitempty"`
	// B64 carries inputs that are not valid UTF-8 (JSON strings cannot hold them faithfully)
	B64 string `json:"b64,omitempty"`
}

func mkBytes(b []byte) BytesCase {
	if utf8.Valid(b) {
		return BytesCase{Text: string(b)}
	}
	return BytesCase{B64: base64.StdEncoding.EncodeToString(b)}
}

func (c BytesCase) bytes() []byte {
	if c.B64 != "" {
		b, _ := base64.StdEncoding.DecodeString(c.B64)
		return b
	}
	return []byte(c.Text)
}

var tokens = []string{"configVersion", "v1", "v0", ":", " ", "\n", "- ", "{", "}", "[", "]", ",", "\"", "onStartup", "schedule", "kubernetes", "crontab", "* * * * *", "kind", "Pod", "name", "includeSnapshotsFrom", "group", "queue", "null", "true", "1", "-1", "1e999", "*/0 * * * *", "0", "/", "-", "*", "settings", "executionMinInterval", "executionBurst", "kubernetesValidating", "rules", "&a", "*a", "!!binary", "|", ">", "---", "\t", "jqFilter", "namespace", "nameSelector", "matchNames", "labelSelector", "matchExpressions", "operator", "In", "values", "onKubernetesEvent", "event", "add"}

func genBytes(t *rapid.T) BytesCase {
	switch rapid.IntRange(0, 2).Draw(t, "mode") {
	case 0:
		return mkBytes(rapid.SliceOfN(rapid.Byte(), 0, 200).Draw(t, "bytes"))
	case 1:
		n := rapid.IntRange(1, 40).Draw(t, "n")
		var sb strings.Builder
		for i := 0; i < n; i++ {
			sb.WriteString(rapid.SampledFrom(tokens).Draw(t, "tok"))
		}
		return mkBytes([]byte(sb.String()))
	default:
		// token-level mutation of a valid document
		d := genD(t)
		text := d.JSON()
		if rapid.Bool().Draw(t, "yaml") {
			text = d.YAML()
		}
		b := []byte(text)
		for k, n := 0, rapid.IntRange(1, 4).Draw(t, "nm"); k < n && len(b) > 0; k++ {
			pos := rapid.IntRange(0, len(b)-1).Draw(t, "pos")
			switch rapid.IntRange(0, 2).Draw(t, "mk") {
			case 0:
				b = append(b[:pos], b[pos+1:]...)
			case 1:
				b[pos] = rapid.Byte().Draw(t, "byte")
			case 2:
				tok := rapid.SampledFrom(tokens).Draw(t, "tok")
				b = append(b[:pos], append([]byte(tok), b[pos:]...)...)
			}
		}
		return mkBytes(b)
	}
}

func runBytes(c BytesCase) (ev.Info, error) {
	info := ev.Info{}
	text := c.bytes()
	cfg, err := load(text)
	if err != nil && (strings.HasPrefix(err.Error(), "PANIC") || strings.HasPrefix(err.Error(), "HANG")) {
		return info, fmt.Errorf("LoadAndValidate does not end cleanly on %q: %v", text, err)
	}
	if err == nil {
		info.Labels = append(info.Labels, "loaded")
		if cfg.Version != "v0" && cfg.Version != "v1" {
			return info, fmt.Errorf("loaded a configuration with version %q from %q", cfg.Version, text)
		}
		// a loaded configuration must be usable: summarizing it touches every pointer the operator later follows
		_ = summarize(cfg)
		info.NonTrivial = true
	} else {
		info.Labels = append(info.Labels, "rejected")
		info.NonTrivial = len(text) > 8
	}
	return info, nil
}

const ruleBytes = "arbitrary byte strings (random bytes, random sequences of configuration tokens, 1-4 byte/token mutations of valid generated documents) given to LoadAndValidate: never panics, returns an error or a configuration of a known version whose bindings can be traversed. Non-trivial: loaded, or rejected with more than 8 bytes."

func TestBytes(t *testing.T) {
	ev.Main(t, ev.Spec[BytesCase]{Property: "C10", Part: "bytes", Rule: ruleBytes, Gen: genBytes, Run: runBytes, Journal: true})
}

// FuzzBytes is the coverage-guided companion of TestBytes (thorough tier): same oracle, bytes chosen by the
// native fuzzer starting from rendered valid documents and the token list.
func FuzzBytes(f *testing.F) {
	seeds := [][]byte{[]byte(`{"configVersion":"v1","onStartup":1}`), []byte("configVersion: v1\nschedule:\n- name: s\n  crontab: '* * * * *'\n"),
		[]byte(`{"configVersion":"v1","kubernetes":[{"name":"k","kind":"Pod","executeHookOnEvent":["Added"],"jqFilter":".a","namespace":{"nameSelector":{"matchNames":["d"]}},"group":"g","queue":"q"}],"schedule":[{"crontab":"*/5 * * * *","group":"g","includeSnapshotsFrom":["k"]}],"settings":{"executionMinInterval":"3s","executionBurst":1}}`),
		[]byte(`{"onStartup":1,"onKubernetesEvent":[{"kind":"pod","event":["add"]}],"schedule":[{"crontab":"* * * * *"}]}`),
		[]byte(`{"configVersion":"v1","kubernetesValidating":[{"name":"v.example.com","rules":[{"operations":["CREATE"],"apiGroups":[""],"apiVersions":["v1"],"resources":["pods"]}]}],"kubernetesCustomResourceConversion":[{"name":"c","crdName":"a.b.c","conversions":[{"fromVersion":"v1","toVersion":"v2"}]}]}`)}
	for _, tk := range tokens {
		seeds = append(seeds, []byte(tk))
	}
	ev.Fuzz(f, ev.Spec[BytesCase]{Property: "C10", Part: "bytes", Rule: ruleBytes, Run: runBytes}, mkBytes, seeds)
}
