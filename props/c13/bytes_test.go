package c13

import (
	"encoding/base64"
	"fmt"
	"os"
	"runtime/debug"
	"strings"
	"testing"
	"time"
	"unicode/utf8"

	objectpatch "github.com/flant/shell-operator/pkg/kube/object_patch"
	"pgregory.net/rapid"

	"verif/internal/ev"
)

// Byte level: whatever a hook writes into the patch file is rejected as a whole or parsed into operations;
// parsing never panics or hangs.

type BytesCase struct {
	Text string `json:"text,omitempty"`
	B64  string `json:"b64,omitempty"`
	// MustReject: the input is a valid JSON stream with a stray closing bracket inserted at a document boundary
	MustReject bool `json:"must_reject,omitempty"`
}

func mkBytes(b []byte) BytesCase {
	if utf8.Valid(b) {
		return BytesCase{Text: string(b)}
	}
	return BytesCase{B64: base64.StdEncoding.EncodeToString(b)}
}

func (c BytesCase) bytes() []byte {
	if c.B64 != "" {
		b, _ := base64.StdEncoding.DecodeString(c.B64)
		return b
	}
	return []byte(c.Text)
}

var patchTokens = []string{"operation", "Create", "CreateOrUpdate", "CreateIfNotExists", "Delete", "DeleteInBackground", "DeleteNonCascading", "JQPatch", "MergePatch", "JSONPatch", "object", "apiVersion", "v1", "kind", "ConfigMap", "namespace", "name", "metadata", "jqFilter", ".data.a = 1", "mergePatch", "jsonPatch", "subresource", "status", "ignoreMissingObject", "ignoreHookError", "true", "null", "1", "-1", "1e999", ":", " ", "\n", "- ", "{", "}", "[", "]", ",", "\"", "---", "|", ">", "&a", "*a", "!!binary", "\t", "op", "add", "path", "/data/x", "value"}

func genPatchBytes(t *rapid.T) BytesCase {
	switch rapid.IntRange(0, 3).Draw(t, "mode") {
	case 3:
		// a valid JSON stream with a stray closing bracket at a document boundary: not a stream of documents
		c := gen(t)
		for i := range c.Docs {
			c.Docs[i].Fault = ""
		}
		format := rapid.SampledFrom([]string{"json-concat", "json-lines"}).Draw(t, "jformat")
		cut := rapid.IntRange(1, len(c.Docs)).Draw(t, "cut")
		stray := rapid.SampledFrom([]string{"}", "]", "\n}\n", " ] "}).Draw(t, "stray")
		b := append(render(c.Docs[:cut], format), []byte(stray)...)
		b = append(b, render(c.Docs[cut:], format)...)
		bc := mkBytes(b)
		bc.MustReject = true
		return bc
	case 0:
		return mkBytes(rapid.SliceOfN(rapid.Byte(), 0, 200).Draw(t, "bytes"))
	case 1:
		var sb strings.Builder
		for i, n := 0, rapid.IntRange(1, 40).Draw(t, "n"); i < n; i++ {
			sb.WriteString(rapid.SampledFrom(patchTokens).Draw(t, "tok"))
		}
		return mkBytes([]byte(sb.String()))
	default:
		// byte/token mutations of a rendered valid stream
		c := gen(t)
		b := render(c.Docs, rapid.SampledFrom([]string{"json-concat", "json-lines", "yaml"}).Draw(t, "format"))
		for k, n := 0, rapid.IntRange(1, 4).Draw(t, "nm"); k < n && len(b) > 0; k++ {
			pos := rapid.IntRange(0, len(b)-1).Draw(t, "pos")
			switch rapid.IntRange(0, 2).Draw(t, "mk") {
			case 0:
				b = append(b[:pos:pos], b[pos+1:]...)
			case 1:
				b[pos] = rapid.Byte().Draw(t, "byte")
			default:
				tok := rapid.SampledFrom(patchTokens).Draw(t, "tok")
				b = append(b[:pos:pos], append([]byte(tok), b[pos:]...)...)
			}
		}
		return mkBytes(b)
	}
}

func runPatchBytes(c BytesCase) (ev.Info, error) {
	info := ev.Info{}
	text := c.bytes()
	type outcome struct {
		accepted bool
		nops     int
		panicked string
	}
	done := make(chan outcome, 1)
	go func() {
		o := outcome{}
		defer func() {
			if r := recover(); r != nil {
				o.panicked = fmt.Sprint(r)
				fmt.Fprintf(os.Stderr, "panic while handling a patch file: %v\n%s\n", r, debug.Stack())
			}
			done <- o
		}()
		ops, err := objectpatch.ParseOperations(text)
		if err != nil {
			return
		}
		o.accepted, o.nops = true, len(ops)
		for _, op := range ops {
			if op == nil {
				panic("ParseOperations returned a nil operation")
			}
			_ = op.Description()
		}
		// (the operations are not applied here: for a kind the fake cluster does not know, the fake kube client
		// itself crashes - it has no discovery cache to invalidate - which says nothing about shell-operator)
	}()
	select {
	case o := <-done:
		if o.panicked != "" {
			return info, fmt.Errorf("patch file content %q: panic: %s", text, o.panicked)
		}
		if o.accepted && c.MustReject {
			return info, fmt.Errorf("a JSON stream with a stray closing bracket between its documents was accepted (%d operations): %q", o.nops, text)
		}
		if c.MustReject {
			info.Labels = append(info.Labels, "stray-bracket-rejected")
		}
		if o.accepted {
			info.Labels = append(info.Labels, "accepted")
			info.NonTrivial = o.nops > 0
		} else {
			info.Labels = append(info.Labels, "rejected")
			info.NonTrivial = len(text) > 8
		}
	case <-time.After(5 * time.Second):
		return info, fmt.Errorf("patch file content %q: parsing does not end within 5s", text)
	}
	return info, nil
}

const ruleBytes = "arbitrary byte strings as patch file content (random bytes, random sequences of patch-file tokens, 1-4 byte/token mutations of rendered valid streams in the three renderings, valid JSON streams with a stray closing bracket inserted at a document boundary - these must be rejected) given to ParseOperations: it neither panics nor hangs, and every returned operation is non-nil and describable. Non-trivial: accepted with >= 1 operation, or rejected with more than 8 bytes."

func TestPatchBytes(t *testing.T) {
	ev.Main(t, ev.Spec[BytesCase]{Property: "C13", Part: "bytes", Rule: ruleBytes, Gen: genPatchBytes, Run: runPatchBytes, Journal: true})
}

// FuzzPatchBytes is the coverage-guided companion of TestPatchBytes (thorough tier).
func FuzzPatchBytes(f *testing.F) {
	seeds := [][]byte{
		[]byte(`{"operation":"CreateOrUpdate","object":{"apiVersion":"v1","kind":"ConfigMap","metadata":{"name":"a","namespace":"ns1"},"data":{"k":"v"}}}`),
		[]byte("operation: Delete\napiVersion: v1\nkind: ConfigMap\nnamespace: ns1\nname: a\n---\noperation: JQPatch\nkind: ConfigMap\nnamespace: ns1\nname: a\njqFilter: '.data.a = \"1\"'\n"),
		[]byte(`{"operation":"MergePatch","kind":"ConfigMap","namespace":"ns1","name":"a","mergePatch":{"data":{"x":"y"}},"ignoreMissingObject":true}{"operation":"JSONPatch","kind":"ConfigMap","namespace":"ns1","name":"a","jsonPatch":[{"op":"add","path":"/data/x","value":"1"}]}`),
		[]byte("operation: Create\nobject: |\n  apiVersion: v1\n  kind: ConfigMap\n  metadata:\n    name: s\n    namespace: ns2\n"),
	}
	for _, tk := range patchTokens {
		seeds = append(seeds, []byte(tk))
	}
	ev.Fuzz(f, ev.Spec[BytesCase]{Property: "C13", Part: "bytes", Rule: ruleBytes, Run: runPatchBytes}, mkBytes, seeds)
}
