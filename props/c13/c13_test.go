package c13

import (
	"regexp"
	"context"
	"encoding/json"
	"fmt"
	"sort"
	"strings"
	"testing"

	"github.com/deckhouse/deckhouse/pkg/log"
	"github.com/flant/kube-client/fake"
	objectpatch "github.com/flant/shell-operator/pkg/kube/object_patch"
	"gopkg.in/yaml.v3"
	apierrors "k8s.io/apimachinery/pkg/api/errors"
	metav1 "k8s.io/apimachinery/pkg/apis/meta/v1"
	"k8s.io/apimachinery/pkg/apis/meta/v1/unstructured"
	"k8s.io/apimachinery/pkg/runtime"
	"k8s.io/apimachinery/pkg/runtime/schema"
	dynfake "k8s.io/client-go/dynamic/fake"
	clienttesting "k8s.io/client-go/testing"
	"pgregory.net/rapid"

	"verif/internal/ev"
	"verif/internal/kit"
)

type Doc struct {
	Op      string         `json:"op"`
	Kind    string         `json:"kind"`
	Ns      string         `json:"ns"`
	Name    string         `json:"name"`
	Body    map[string]any `json:"body,omitempty"`     // create: object fields besides identity
	ObjAs   string         `json:"obj_as,omitempty"`   // inline json-string yaml-string
	Merge   map[string]any `json:"merge,omitempty"`    // merge patch
	JSONP   []any          `json:"jsonp,omitempty"`    // json patch
	PatchAs string         `json:"patch_as,omitempty"` // inline string yaml-string flow-string
	JQ      string         `json:"jq,omitempty"`
	Sub     string         `json:"sub,omitempty"`
	Ignore  bool           `json:"ignore,omitempty"`
	Fault   string         `json:"fault,omitempty"` // single-fault mutation making the document invalid
}

type InitObj struct {
	Kind string         `json:"kind"`
	Ns   string         `json:"ns"`
	Name string         `json:"name"`
	Body map[string]any `json:"body"`
}

type Case struct {
	Initial []InitObj `json:"initial"`
	Docs    []Doc     `json:"docs"`
	// Conflicts: the API server answers the first n Update requests with 409 Conflict (another writer changed the
	// object between the operation's Get and its Update); the operations that update (CreateOrUpdate, JQPatch) read
	// the object again and repeat
	Conflicts int `json:"conflicts,omitempty"`
}

var widgetGVR = schema.GroupVersionResource{Group: "example.com", Version: "v1", Resource: "widgets"}

func apiVersion(kind string) string {
	if kind == "Widget" {
		return "example.com/v1"
	}
	return "v1"
}

func gvr(kind string) schema.GroupVersionResource {
	if kind == "Widget" {
		return widgetGVR
	}
	return kit.CMGVR
}

func key(kind, ns, name string) string { return kind + "/" + ns + "/" + name }

func fullObject(kind, ns, name string, body map[string]any) map[string]any {
	m := map[string]any{}
	if body != nil {
		m = kit.DeepCopyJSON(body).(map[string]any)
	}
	m["apiVersion"] = apiVersion(kind)
	m["kind"] = kind
	md, _ := m["metadata"].(map[string]any)
	if md == nil {
		md = map[string]any{}
	}
	md["name"] = name
	md["namespace"] = ns
	m["metadata"] = md
	return m
}

// ---------- generator ----------

func genBody(t *rapid.T, kind string) map[string]any {
	b := map[string]any{}
	data := map[string]any{}
	for _, k := range []string{"a", "b"} {
		if rapid.Bool().Draw(t, "has"+k) {
			data[k] = rapid.SampledFrom([]string{"x", "y", "z"}).Draw(t, "dv")
		}
	}
	b["data"] = data
	if kind == "Widget" {
		b["spec"] = map[string]any{"replicas": float64(rapid.IntRange(0, 5).Draw(t, "replicas")), "size": rapid.SampledFrom([]string{"s", "m"}).Draw(t, "size")}
	}
	if rapid.IntRange(0, 3).Draw(t, "labels") == 0 {
		b["metadata"] = map[string]any{"labels": map[string]any{"app": rapid.SampledFrom([]string{"x", "y"}).Draw(t, "app")}}
	}
	return b
}

func gen(t *rapid.T) Case {
	c := Case{}
	kinds := []string{"ConfigMap", "ConfigMap", "Widget"}
	nss := []string{"ns1", "ns2"}
	names := []string{"o1", "o2"}
	for _, k := range []string{"ConfigMap", "Widget"} {
		for _, ns := range nss {
			for _, n := range names {
				if rapid.IntRange(0, 2).Draw(t, "init") == 0 {
					c.Initial = append(c.Initial, InitObj{k, ns, n, genBody(t, k)})
				}
			}
		}
	}
	n := rapid.IntRange(1, 6).Draw(t, "n")
	foreground := 0
	for i := 0; i < n; i++ {
		d := Doc{Kind: rapid.SampledFrom(kinds).Draw(t, "kind"), Ns: rapid.SampledFrom(nss).Draw(t, "ns"), Name: rapid.SampledFrom(names).Draw(t, "name")}
		d.Op = rapid.SampledFrom([]string{"Create", "CreateOrUpdate", "CreateIfNotExists", "Delete", "DeleteInBackground", "DeleteNonCascading", "DeleteInBackground", "MergePatch", "MergePatch", "JSONPatch", "JSONPatch", "JQPatch", "JQPatch"}).Draw(t, "op")
		if d.Op == "Delete" {
			if foreground > 0 {
				d.Op = "DeleteInBackground"
			} else {
				foreground++
			}
		}
		switch d.Op {
		case "Create", "CreateOrUpdate", "CreateIfNotExists":
			d.Body = genBody(t, d.Kind)
			d.ObjAs = rapid.SampledFrom([]string{"inline", "inline", "json-string", "yaml-string"}).Draw(t, "objas")
		case "MergePatch":
			switch rapid.IntRange(0, 3).Draw(t, "mp") {
			case 0:
				d.Merge = map[string]any{"data": map[string]any{rapid.SampledFrom([]string{"a", "b", "c"}).Draw(t, "mk"): rapid.SampledFrom([]any{"x", "q", nil}).Draw(t, "mv")}}
			case 1:
				d.Merge = map[string]any{"spec": map[string]any{"replicas": float64(rapid.IntRange(0, 9).Draw(t, "mr"))}}
			case 2:
				d.Merge = map[string]any{"metadata": map[string]any{"labels": map[string]any{"app": rapid.SampledFrom([]any{"x", "y", nil}).Draw(t, "ml")}}}
			case 3:
				d.Merge = map[string]any{"status": map[string]any{"phase": rapid.SampledFrom([]string{"Ready", "Failed"}).Draw(t, "mph")}}
				d.Sub = rapid.SampledFrom([]string{"", "status"}).Draw(t, "sub")
			}
			d.PatchAs = rapid.SampledFrom([]string{"inline", "inline", "string", "yaml-string", "flow-string"}).Draw(t, "pas")
			d.Ignore = rapid.Bool().Draw(t, "ignore")
		case "JSONPatch":
			k := rapid.IntRange(1, 2).Draw(t, "nj")
			for j := 0; j < k; j++ {
				op := rapid.SampledFrom([]string{"add", "add", "add", "replace", "remove"}).Draw(t, "jop")
				path := rapid.SampledFrom([]string{"/data/a", "/data/b", "/data/c", "/spec/replicas"}).Draw(t, "jpath")
				var v any = rapid.SampledFrom([]string{"x", "w"}).Draw(t, "jv")
				if path == "/spec/replicas" {
					v = float64(rapid.IntRange(0, 9).Draw(t, "jr"))
				}
				d.JSONP = append(d.JSONP, map[string]any{"op": op, "path": path, "value": v})
			}
			d.PatchAs = rapid.SampledFrom([]string{"inline", "inline", "string", "yaml-string", "flow-string"}).Draw(t, "pas")
			d.Ignore = rapid.Bool().Draw(t, "ignore")
		case "JQPatch":
			d.JQ = rapid.SampledFrom([]string{`.data.a = "j"`, `.data.c = "j"`, `del(.data.a)`, `del(.data.b)`, `.spec.size = "j"`, `.metadata.labels.app = "j"`}).Draw(t, "jq")
			d.Ignore = rapid.Bool().Draw(t, "ignore")
		}
		c.Docs = append(c.Docs, d)
	}
	c.Conflicts = rapid.SampledFrom([]int{0, 0, 0, 1, 1, 2}).Draw(t, "conflicts")
	if rapid.IntRange(0, 3).Draw(t, "invalid") == 0 {
		i := rapid.IntRange(0, len(c.Docs)-1).Draw(t, "ipos")
		c.Docs[i].Fault = rapid.SampledFrom([]string{"unknown-operation", "missing-name", "missing-kind", "missing-object", "empty-patch", "no-operation"}).Draw(t, "fault")
	}
	return c
}

// ---------- rendering ----------

func (d Doc) spec() map[string]any {
	m := map[string]any{"operation": d.Op}
	switch d.Op {
	case "Create", "CreateOrUpdate", "CreateIfNotExists":
		obj := fullObject(d.Kind, d.Ns, d.Name, d.Body)
		switch d.ObjAs {
		case "json-string":
			b, _ := json.Marshal(obj)
			m["object"] = string(b)
		case "yaml-string":
			b, _ := yaml.Marshal(obj)
			m["object"] = string(b)
		default:
			m["object"] = obj
		}
	default:
		m["apiVersion"] = apiVersion(d.Kind)
		m["kind"] = d.Kind
		m["namespace"] = d.Ns
		m["name"] = d.Name
	}
	switch d.Op {
	case "MergePatch":
		m["mergePatch"] = patchAs(d.PatchAs, d.Merge)
	case "JSONPatch":
		m["jsonPatch"] = patchAs(d.PatchAs, d.JSONP)
	case "JQPatch":
		m["jqFilter"] = d.JQ
	}
	if d.Sub != "" {
		m["subresource"] = d.Sub
	}
	if d.Ignore {
		m["ignoreMissingObject"] = true
	}
	switch d.Fault {
	case "unknown-operation":
		m["operation"] = "Upsert"
	case "no-operation":
		delete(m, "operation")
	case "missing-name":
		if _, ok := m["name"]; ok {
			delete(m, "name")
		} else {
			m["operation"] = "MergePatch"
			m["kind"] = "ConfigMap"
			m["mergePatch"] = map[string]any{"data": map[string]any{"a": "b"}}
			delete(m, "object")
		}
	case "missing-kind":
		if _, ok := m["kind"]; ok {
			delete(m, "kind")
		} else {
			m["operation"] = "Delete"
			m["name"] = "x"
			delete(m, "object")
		}
	case "missing-object":
		m["operation"] = "Create"
		delete(m, "object")
	case "empty-patch":
		m["operation"] = "MergePatch"
		m["kind"], m["name"] = "ConfigMap", "o1"
		m["mergePatch"] = map[string]any{}
		delete(m, "object")
	case "unknown-key":
		m["force"] = true
	}
	return m
}

var reQuotedKey = regexp.MustCompile(`"([A-Za-z_][A-Za-z0-9_]*)":`)

// patchAs renders a patch inline or as one of the documented string forms: stringified JSON, stringified YAML in
// block style, stringified YAML in flow style (JSON-like, keys unquoted).
func patchAs(how string, v any) any {
	switch how {
	case "string":
		b, _ := json.Marshal(v)
		return string(b)
	case "yaml-string":
		b, _ := yaml.Marshal(v)
		return string(b)
	case "flow-string":
		b, _ := json.Marshal(v)
		return reQuotedKey.ReplaceAllString(string(b), "$1: ")
	}
	return kit.DeepCopyJSON(v)
}

func render(docs []Doc, format string) []byte {
	var sb strings.Builder
	for i, d := range docs {
		switch format {
		case "json-concat":
			b, _ := json.Marshal(d.spec())
			sb.Write(b)
		case "json-lines":
			b, _ := json.MarshalIndent(d.spec(), "", "  ")
			sb.Write(b)
			sb.WriteString("\n")
		case "yaml":
			if i > 0 {
				sb.WriteString("---\n")
			}
			b, _ := yaml.Marshal(d.spec())
			sb.Write(b)
		case "yaml-json-first":
			if i > 0 {
				sb.WriteString("---\n")
			}
			if i == 0 {
				b, _ := json.Marshal(d.spec())
				sb.Write(b)
				sb.WriteString("\n")
			} else {
				b, _ := yaml.Marshal(d.spec())
				sb.Write(b)
			}
		}
	}
	return []byte(sb.String())
}

// ---------- reference model ----------

func mergePatch(target any, patch any) any {
	pm, ok := patch.(map[string]any)
	if !ok {
		return kit.DeepCopyJSON(patch)
	}
	tm, ok := target.(map[string]any)
	if !ok {
		tm = map[string]any{}
	}
	for k, v := range pm {
		if v == nil {
			delete(tm, k)
		} else {
			tm[k] = mergePatch(tm[k], v)
		}
	}
	return tm
}

// jsonPatch supports add/replace/remove on /a/b paths of objects.
func jsonPatch(obj map[string]any, ops []any) (map[string]any, error) {
	o := kit.DeepCopyJSON(obj).(map[string]any)
	for _, x := range ops {
		op := x.(map[string]any)
		parts := strings.Split(strings.TrimPrefix(op["path"].(string), "/"), "/")
		var parent map[string]any = o
		for _, p := range parts[:len(parts)-1] {
			next, ok := parent[p].(map[string]any)
			if !ok {
				return nil, fmt.Errorf("json patch: missing parent %s", p)
			}
			parent = next
		}
		last := parts[len(parts)-1]
		_, exists := parent[last]
		switch op["op"] {
		case "add":
			parent[last] = op["value"]
		case "replace":
			if !exists {
				return nil, fmt.Errorf("json patch: replace of a missing key")
			}
			parent[last] = op["value"]
		case "remove":
			if !exists {
				return nil, fmt.Errorf("json patch: remove of a missing key")
			}
			delete(parent, last)
		}
	}
	return o, nil
}

type model struct {
	objs map[string]map[string]any
	// outOfDomain: a JSON patch addressed a missing key/parent. RFC 6902 makes that an error, the
	// object tracker's patch library accepts some of these; the property does not depend on it.
	outOfDomain bool
}

// apply returns whether the operation reports an error.
func (m *model) apply(d Doc) bool {
	k := key(d.Kind, d.Ns, d.Name)
	cur, exists := m.objs[k]
	switch d.Op {
	case "Create":
		if exists {
			return true
		}
		m.objs[k] = fullObject(d.Kind, d.Ns, d.Name, d.Body)
	case "CreateIfNotExists":
		if !exists {
			m.objs[k] = fullObject(d.Kind, d.Ns, d.Name, d.Body)
		}
	case "CreateOrUpdate":
		m.objs[k] = fullObject(d.Kind, d.Ns, d.Name, d.Body)
	case "Delete", "DeleteInBackground", "DeleteNonCascading":
		delete(m.objs, k)
	case "MergePatch":
		if !exists {
			return !d.Ignore
		}
		m.objs[k] = mergePatch(kit.DeepCopyJSON(cur), d.Merge).(map[string]any)
	case "JSONPatch":
		if !exists {
			return !d.Ignore
		}
		n, err := jsonPatch(cur, d.JSONP)
		if err != nil {
			m.outOfDomain = true
			return true
		}
		m.objs[k] = n
	case "JQPatch":
		if !exists {
			return !d.Ignore
		}
		outs, err := kit.JQ(d.JQ, cur)
		if err != nil || len(outs) != 1 {
			return true
		}
		m.objs[k] = outs[0].(map[string]any)
	}
	return false
}

// ---------- execution ----------

func newCluster(c Case) (*fake.Cluster, error) {
	fc := kit.NewCluster("ns1", "ns2")
	fc.RegisterCRD("example.com", "v1", "Widget", true)
	for _, o := range c.Initial {
		u := &unstructured.Unstructured{Object: fullObject(o.Kind, o.Ns, o.Name, o.Body)}
		if _, err := fc.Client.Dynamic().Resource(gvr(o.Kind)).Namespace(o.Ns).Create(context.TODO(), u, metav1.CreateOptions{}); err != nil {
			return nil, err
		}
	}
	return fc, nil
}

func dump(fc *fake.Cluster) (map[string]string, error) {
	out := map[string]string{}
	for _, kind := range []string{"ConfigMap", "Widget"} {
		l, err := fc.Client.Dynamic().Resource(gvr(kind)).Namespace("").List(context.TODO(), metav1.ListOptions{})
		if err != nil {
			return nil, err
		}
		for _, it := range l.Items {
			o := it.Object
			if md, ok := o["metadata"].(map[string]any); ok {
				delete(md, "resourceVersion")
				delete(md, "uid")
				delete(md, "creationTimestamp")
			}
			out[key(kind, it.GetNamespace(), it.GetName())] = kit.Canon(o)
		}
	}
	return out, nil
}

func actions(fc *fake.Cluster, from int) []string {
	fd, ok := fc.Client.Dynamic().(*dynfake.FakeDynamicClient)
	if !ok {
		return nil
	}
	var out []string
	for _, a := range fd.Actions()[from:] {
		s := a.GetVerb() + " " + a.GetResource().Resource + " " + a.GetNamespace() + " sub=" + a.GetSubresource()
		switch x := a.(type) {
		case clienttesting.PatchAction:
			s += " name=" + x.GetName() + " type=" + string(x.GetPatchType()) + " patch=" + kit.Canon(json.RawMessage(x.GetPatch()))
		case clienttesting.DeleteAction:
			pp := ""
			if p := x.GetDeleteOptions().PropagationPolicy; p != nil {
				pp = string(*p)
			}
			s += " name=" + x.GetName() + " propagation=" + pp
		case clienttesting.CreateAction:
			if u, ok := x.GetObject().(*unstructured.Unstructured); ok {
				s += " obj=" + kit.Canon(u.Object)
			}
		case clienttesting.UpdateAction:
			if u, ok := x.GetObject().(*unstructured.Unstructured); ok {
				s += " obj=" + kit.Canon(u.Object)
			}
		case clienttesting.GetAction:
			s += " name=" + x.GetName()
		}
		out = append(out, s)
	}
	return out
}

func nActions(fc *fake.Cluster) int {
	if fd, ok := fc.Client.Dynamic().(*dynfake.FakeDynamicClient); ok {
		return len(fd.Actions())
	}
	return 0
}

type result struct {
	conflicts int
	parseErr bool
	execErr  bool
	state    map[string]string
	actions  []string
	nops     int
}

func execute(c Case, format string) (result, error) {
	r := result{}
	fc, err := newCluster(c)
	if err != nil {
		return r, fmt.Errorf("harness: %v", err)
	}
	conflictsServed := 0
	if fd, ok := fc.Client.Dynamic().(*dynfake.FakeDynamicClient); ok && c.Conflicts > 0 {
		left := c.Conflicts
		fd.PrependReactor("update", "*", func(a clienttesting.Action) (bool, runtime.Object, error) {
			if left > 0 {
				left--
				conflictsServed++
				name := ""
				if ua, ok := a.(clienttesting.UpdateAction); ok {
					if u, ok := ua.GetObject().(*unstructured.Unstructured); ok {
						name = u.GetName()
					}
				}
				return true, nil, apierrors.NewConflict(a.GetResource().GroupResource(), name, fmt.Errorf("the object has been modified; please apply your changes to the latest version and try again"))
			}
			return false, nil, nil
		})
	}
	from := nActions(fc)
	ops, perr := objectpatch.ParseOperations(render(c.Docs, format))
	if perr != nil {
		r.parseErr = true
	} else {
		r.nops = len(ops)
		patcher := objectpatch.NewObjectPatcher(fc.Client, log.NewNop())
		if err := patcher.ExecuteOperations(ops); err != nil {
			r.execErr = true
		}
	}
	r.actions = actions(fc, from)
	r.conflicts = conflictsServed
	r.state, err = dump(fc)
	if err != nil {
		return r, fmt.Errorf("harness: %v", err)
	}
	return r, nil
}

func diffState(got, want map[string]string) string {
	var d []string
	for k, v := range want {
		if g, ok := got[k]; !ok {
			d = append(d, "missing "+k)
		} else if g != v {
			d = append(d, fmt.Sprintf("%s is %s, expected %s", k, g, v))
		}
	}
	for k := range got {
		if _, ok := want[k]; !ok {
			d = append(d, "unexpected "+k)
		}
	}
	sort.Strings(d)
	return strings.Join(d, "; ")
}

func runCase(c Case) (ev.Info, error) {
	info := ev.Info{}
	if len(c.Docs) == 0 {
		return info, nil
	}
	invalid := false
	for _, d := range c.Docs {
		if d.Fault != "" {
			invalid = true
			info.Labels = append(info.Labels, "invalid:"+d.Fault)
		}
	}
	// reference
	m := &model{objs: map[string]map[string]any{}}
	for _, o := range c.Initial {
		m.objs[key(o.Kind, o.Ns, o.Name)] = fullObject(o.Kind, o.Ns, o.Name, o.Body)
	}
	initial := map[string]string{}
	for k, o := range m.objs {
		initial[k] = kit.Canon(o)
	}
	wantErr := false
	touched := map[string]int{}
	if !invalid {
		for _, d := range c.Docs {
			if m.apply(d) {
				wantErr = true
			}
			touched[key(d.Kind, d.Ns, d.Name)]++
		}
	}
	if m.outOfDomain {
		info.Labels = append(info.Labels, "out-of-domain:json-patch-on-missing-path")
		return info, nil
	}
	for _, n := range touched {
		if n >= 2 {
			info.NonTrivial = true
		}
	}
	if invalid {
		info.NonTrivial = true
	}
	want := map[string]string{}
	for k, o := range m.objs {
		want[k] = kit.Canon(o)
	}
	var results []result
	// "yaml-json-first": a YAML stream (documents separated by ---) whose first document is written in JSON
	// (flow) style, as a hook does that prints its first operation with jq and the rest with a here-document
	formats := []string{"json-concat", "json-lines", "yaml", "yaml-json-first"}
	for _, f := range formats {
		r, err := execute(c, f)
		if err != nil {
			return info, err
		}
		results = append(results, r)
		if invalid {
			if !r.parseErr {
				return info, fmt.Errorf("%s: a stream with an invalid document was accepted by ParseOperations", f)
			}
			if d := diffState(r.state, initial); d != "" {
				return info, fmt.Errorf("%s: cluster changed although the stream is invalid: %s", f, d)
			}
			continue
		}
		if r.parseErr {
			return info, fmt.Errorf("%s: valid stream rejected by ParseOperations", f)
		}
		if r.nops != len(c.Docs) {
			return info, fmt.Errorf("%s: %d documents parsed into %d operations", f, len(c.Docs), r.nops)
		}
		if d := diffState(r.state, want); d != "" {
			return info, fmt.Errorf("%s: cluster after applying the stream differs from the reference: %s", f, d)
		}
		if r.conflicts > 0 && f == formats[0] {
			info.Labels = append(info.Labels, "update-answered-with-conflict")
			info.NonTrivial = true
		}
		if r.execErr != wantErr {
			return info, fmt.Errorf("%s: ExecuteOperations error=%v, reference expects error=%v", f, r.execErr, wantErr)
		}
	}
	if !invalid {
		for i := 1; i < len(results); i++ {
			if strings.Join(results[i].actions, "\n") != strings.Join(results[0].actions, "\n") {
				return info, fmt.Errorf("client actions differ between %s and %s:\n%s\n--- vs ---\n%s", formats[0], formats[i], strings.Join(results[0].actions, "\n"), strings.Join(results[i].actions, "\n"))
			}
		}
		// each document applied once: primary actions counted
		cnt := map[string]int{}
		for _, a := range results[0].actions {
			cnt[strings.SplitN(a, " ", 2)[0]]++
		}
		wantCreate, wantDelete, wantPatch := 0, 0, 0
		for _, d := range c.Docs {
			switch {
			case strings.HasPrefix(d.Op, "Create"):
				wantCreate++
			case strings.HasPrefix(d.Op, "Delete"):
				wantDelete++
			case d.Op == "MergePatch" || d.Op == "JSONPatch":
				wantPatch++
			}
		}
		if cnt["create"] != wantCreate || cnt["delete"] != wantDelete || cnt["patch"] != wantPatch {
			return info, fmt.Errorf("API calls create=%d delete=%d patch=%d, the stream has %d create, %d delete, %d patch documents", cnt["create"], cnt["delete"], cnt["patch"], wantCreate, wantDelete, wantPatch)
		}
	}
	return info, nil
}

const rule = "streams of 1-6 operation documents (three create variants with the object inline, as JSON string or as YAML string; three delete modes; MergePatch/JSONPatch inline or as a string of JSON, block-style YAML or flow-style YAML; JQPatch; subresource; ignoreMissingObject) over ConfigMaps and a CRD kind in 2 namespaces with a generated initial state; each stream rendered as concatenated JSON, indented JSON documents, ----separated YAML and ----separated YAML whose first document is written in JSON style and executed on identical fake clusters: final states equal a reference model (RFC 7386 merge, add/replace/remove JSON patch, jq), error/no-error equals the reference, client actions identical across renderings, one primary API call per document; in half of the cases the API server answers the first 1-2 Update requests with 409 Conflict (a concurrent writer): the updating operations (CreateOrUpdate, JQPatch) must read again and repeat, final state and error/no-error as without the conflict; 1 in 4 streams has one invalid document at a generated position: rejected in every rendering, cluster unchanged. Non-trivial: >= 2 operations touch the same object, or an invalid stream."

func TestPatch(t *testing.T) {
	ev.Main(t, ev.Spec[Case]{Property: "C13", Part: "patch", Rule: rule, Gen: gen, Run: runCase})
}
