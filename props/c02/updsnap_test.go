package c02

import (
	"context"
	"fmt"
	"strings"
	"testing"

	"github.com/deckhouse/deckhouse/pkg/log"
	bctx "github.com/flant/shell-operator/pkg/hook/binding_context"
	"github.com/flant/shell-operator/pkg/hook/config"
	"github.com/flant/shell-operator/pkg/hook/controller"
	kem "github.com/flant/shell-operator/pkg/kube_events_manager"
	kemtypes "github.com/flant/shell-operator/pkg/kube_events_manager/types"
	schedulemanager "github.com/flant/shell-operator/pkg/schedule_manager"
	"pgregory.net/rapid"

	"verif/internal/ev"
	"verif/internal/hcfg"
	"verif/internal/kit"
	"verif/internal/sched"
)

type USBinding struct {
	OnlyDefault bool     `json:"only_default"`
	Includes    []string `json:"includes,omitempty"`
	Group       string   `json:"group,omitempty"`
}

type USEvent struct {
	K     string `json:"k"` // create modify delete
	Ns    string `json:"ns"`
	Name  string `json:"name"`
	State int    `json:"state"`
}

type USCase struct {
	Bindings  []USBinding `json:"bindings"`
	SchedIncl []string    `json:"sched_includes,omitempty"`
	Initial   []USEvent   `json:"initial"`
	Contexts  []string    `json:"contexts"` // "sync:k0" "sched"
	Events    []USEvent   `json:"events"`
	// Deliver[i]: how many pending events are delivered at the i-th safe park of the execution
	Deliver []int `json:"deliver"`
}

func genUS(t *rapid.T) USCase {
	c := USCase{}
	nb := rapid.IntRange(1, 3).Draw(t, "nb")
	names := []string{"k0", "k1", "k2"}[:nb]
	for i := 0; i < nb; i++ {
		b := USBinding{OnlyDefault: rapid.Bool().Draw(t, "onlydefault"), Group: rapid.SampledFrom([]string{"", "g1"}).Draw(t, "group")}
		for _, n := range names {
			if rapid.IntRange(0, 1).Draw(t, "inc") == 0 {
				b.Includes = append(b.Includes, n)
			}
		}
		c.Bindings = append(c.Bindings, b)
	}
	for _, n := range names {
		if rapid.Bool().Draw(t, "sinc") {
			c.SchedIncl = append(c.SchedIncl, n)
		}
	}
	for _, ns := range []string{"default", "ns2"} {
		for _, n := range []string{"a", "b"} {
			if rapid.IntRange(0, 2).Draw(t, "init") == 0 {
				c.Initial = append(c.Initial, USEvent{"create", ns, n, rapid.IntRange(0, 3).Draw(t, "istate")})
			}
		}
	}
	nc := rapid.IntRange(1, 4).Draw(t, "nctx")
	for i := 0; i < nc; i++ {
		if rapid.IntRange(0, 3).Draw(t, "sched") == 0 {
			c.Contexts = append(c.Contexts, "sched")
		} else {
			c.Contexts = append(c.Contexts, "sync:"+rapid.SampledFrom(names).Draw(t, "cb"))
		}
	}
	ne := rapid.IntRange(1, 5).Draw(t, "nev")
	for i := 0; i < ne; i++ {
		c.Events = append(c.Events, USEvent{rapid.SampledFrom([]string{"create", "create", "modify", "delete"}).Draw(t, "ek"), rapid.SampledFrom([]string{"default", "ns2"}).Draw(t, "ens"), rapid.SampledFrom([]string{"a", "b"}).Draw(t, "ename"), rapid.IntRange(0, 3).Draw(t, "estate")})
	}
	for i, n := 0, rapid.IntRange(4, 30).Draw(t, "nd"); i < n; i++ {
		c.Deliver = append(c.Deliver, rapid.SampledFrom([]int{0, 0, 0, 1, 1, 2}).Draw(t, "d"))
	}
	return c
}

func usBody(state int) map[string]any {
	return map[string]any{"data": map[string]any{"v": fmt.Sprint(state)}}
}

func sig(l []kemtypes.ObjectAndFilterResult) string {
	var sb []string
	for _, o := range l {
		sb = append(sb, o.Metadata.ResourceId+"#"+o.Metadata.Checksum)
	}
	return strings.Join(sb, ",")
}

func runUS(c USCase) (ev.Info, error) {
	info := ev.Info{}
	fc := kit.NewCluster("default", "ns2")
	cluster := map[string]bool{}
	for _, e := range c.Initial {
		if err := kit.Create(fc, kit.Obj(e.Ns, e.Name, usBody(e.State))); err == nil {
			cluster[e.Ns+"/"+e.Name] = true
		}
	}
	d := hcfg.D{}
	names := []string{}
	for i, b := range c.Bindings {
		k := hcfg.Kube{Name: fmt.Sprintf("k%d", i), Kind: "ConfigMap", ApiVersion: "v1", Includes: b.Includes, Group: b.Group}
		if b.OnlyDefault {
			k.Namespace = &hcfg.NsSel{NameSelector: &hcfg.NameSel{MatchNames: []string{"default"}}}
		}
		names = append(names, k.Name)
		d.Kube = append(d.Kube, k)
	}
	d.Schedules = []hcfg.Sched{{Name: "s0", Crontab: "0 0 1 1 *", Includes: c.SchedIncl}}
	cfg := &config.HookConfig{}
	if err := cfg.LoadAndValidate([]byte(d.JSON())); err != nil {
		return info, fmt.Errorf("harness: config: %v", err)
	}
	ctx, cancel := context.WithCancel(context.Background())
	defer cancel()
	s := sched.New()
	defer s.Close()
	mgr := kem.NewKubeEventsManager(ctx, fc.Client, log.NewNop())
	mgr.WithMetricStorage(kit.NopMetrics{})
	smgr := schedulemanager.NewScheduleManager(ctx, log.NewNop())
	hc := controller.NewHookController()
	hc.InitKubernetesBindings(cfg.OnKubernetesEvents, mgr, log.NewNop())
	hc.InitScheduleBindings(cfg.Schedules, smgr)
	syncCtx := map[string]bctx.BindingContext{}
	if err := hc.HandleEnableKubernetesBindings(func(i controller.BindingExecutionInfo) {
		syncCtx[i.Binding] = i.BindingContext[0]
	}); err != nil {
		return info, fmt.Errorf("harness: enable bindings: %v", err)
	}
	hc.EnableScheduleBindings()
	var schedCtx *bctx.BindingContext
	hc.HandleScheduleEvent("0 0 1 1 *", func(i controller.BindingExecutionInfo) {
		bc := i.BindingContext[0]
		schedCtx = &bc
	})
	var input []bctx.BindingContext
	for _, cs := range c.Contexts {
		if cs == "sched" {
			if schedCtx != nil {
				input = append(input, *schedCtx)
			}
			continue
		}
		if bc, ok := syncCtx[strings.TrimPrefix(cs, "sync:")]; ok {
			input = append(input, bc)
		}
	}
	if len(input) == 0 {
		return info, nil
	}
	// informers of every binding
	type infRef struct {
		vi kem.VerifInformer
	}
	var informers []infRef
	for _, kc := range cfg.OnKubernetesEvents {
		m := mgr.GetMonitor(kc.Monitor.Metadata.MonitorId)
		vm, ok := m.(interface{ VerifInformers() []kem.VerifInformer })
		if !ok {
			return info, fmt.Errorf("harness: monitor has no verif accessor")
		}
		for _, vi := range vm.VerifInformers() {
			informers = append(informers, infRef{vi})
		}
	}
	pending := append([]USEvent{}, c.Events...)
	deliverOne := func() {
		if len(pending) == 0 {
			return
		}
		e := pending[0]
		pending = pending[1:]
		key := e.Ns + "/" + e.Name
		obj := kit.Obj(e.Ns, e.Name, usBody(e.State))
		typ := ""
		switch e.K {
		case "create", "modify":
			if cluster[key] {
				_ = kit.Update(fc, obj)
				typ = "Modified"
			} else {
				_ = kit.Create(fc, obj)
				typ = "Added"
			}
			cluster[key] = true
		case "delete":
			if !cluster[key] {
				return
			}
			_ = kit.Delete(fc, e.Ns, e.Name)
			delete(cluster, key)
			typ = "Deleted"
		}
		for _, ir := range informers {
			if ir.vi.Namespace != "" && ir.vi.Namespace != e.Ns {
				continue
			}
			switch typ {
			case "Added":
				ir.vi.OnAdd(obj, false)
			case "Modified":
				ir.vi.OnUpdate(obj, obj)
			case "Deleted":
				ir.vi.OnDelete(obj)
			}
		}
	}
	var out []bctx.BindingContext
	exec := s.Spawn("EXEC", func() { out = hc.UpdateSnapshots(input) })
	park := 0
	delivered := 0
	for s.Step(exec) {
		// deliveries only while the execution holds no informer lock
		if exec.Point == "ri.getCachedObjects.betweenCopyAndReset" {
			continue
		}
		n := 0
		if park < len(c.Deliver) {
			n = c.Deliver[park]
		}
		park++
		for i := 0; i < n; i++ {
			before := len(pending)
			deliverOne()
			if len(pending) < before {
				delivered++
			}
		}
	}
	if exec.Panic != "" {
		return info, fmt.Errorf("UpdateSnapshots panicked: %s", exec.Panic)
	}
	// oracle: inside one execution the snapshot of a binding is identical everywhere it appears
	seen := map[string]string{}
	where := map[string]string{}
	uses := map[string]int{}
	check := func(name, place string, l []kemtypes.ObjectAndFilterResult) error {
		uses[name]++
		sg := sig(l)
		if prev, ok := seen[name]; ok && prev != sg {
			return fmt.Errorf("inside one execution the snapshot of binding %s differs: %s shows [%s], %s shows [%s]", name, where[name], prev, place, sg)
		}
		seen[name], where[name] = sg, place
		return nil
	}
	for i, bc := range out {
		for name, l := range bc.Snapshots {
			if err := check(name, fmt.Sprintf("context %d (%s) snapshots.%s", i, bc.Binding, name), l); err != nil {
				return info, err
			}
		}
		if bc.Type == kemtypes.TypeSynchronization {
			if err := check(bc.Binding, fmt.Sprintf("context %d (%s) objects", i, bc.Binding), bc.Objects); err != nil {
				return info, err
			}
		}
	}
	for _, n := range uses {
		if n >= 2 && delivered > 0 {
			info.NonTrivial = true
		}
	}
	_ = names
	return info, nil
}

const ruleUS = "a real hook controller with 1-3 kubernetes bindings (includes incl. self-includes, groups, namespace selection) and a schedule binding on a real kube events manager and fake cluster; HookController.UpdateSnapshots runs on 1-4 combined contexts (Synchronization contexts, Schedule contexts) as an actor of the cooperative scheduler; at its yield points inside Monitor.Snapshot 0-2 generated cluster changes are delivered to the informers; oracle: in the resulting contexts the snapshot of a binding (every snapshots.<binding> and the objects of its Synchronization context) is identical everywhere it appears. Non-trivial: a binding's snapshot is used at least twice and at least one change was delivered during the execution."

func TestUpdateSnapshots(t *testing.T) {
	ev.Main(t, ev.Spec[USCase]{Property: "C02", Part: "updatesnapshots", Rule: ruleUS, Gen: genUS, Run: runUS})
}
