package c02

import (
	"fmt"
	"testing"

	"verif/internal/ev"
	"verif/internal/monkit"
)

func runMonitors(c monkit.Case) (ev.Info, error) {
	res, err := monkit.Run(c)
	info := ev.Info{NonTrivial: res.NonTrivial, Labels: res.Labels}
	if err != nil {
		return info, err
	}
	if res.Snapshot != "" {
		return info, fmt.Errorf("%s", res.Snapshot)
	}
	return info, nil
}

func TestMonitors(t *testing.T) {
	ev.Main(t, ev.Spec[monkit.Case]{Property: "C02", Part: "monitors", Rule: monkit.Rule, Gen: monkit.Gen, Run: runMonitors, Journal: true})
}
