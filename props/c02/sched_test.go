package c02

import (
	"fmt"
	"strings"
	"testing"

	"verif/internal/ev"
	"verif/internal/ksched"
)

func run(c ksched.Case) (ev.Info, error) {
	res, err := ksched.Run(c)
	if err != nil {
		return res.Info, err
	}
	info := res.Info
	info.NonTrivial = false
	for _, op := range c.Ops {
		if op.K == "delete" || op.K == "nslabel" {
			info.NonTrivial = true
		}
	}
	for _, v := range res.Violations {
		if !strings.HasPrefix(v.Kind, "C02:") {
			continue
		}
		if v.Kind == ksched.KFinal && len(v.Losses) == 1 && v.Losses[0] == "deleted-between-list-and-informer-start" {
			info.Known = "C02-deleted-between-list-and-informer-start"
			info.KnownDetail = v.Detail
			continue
		}
		return info, fmt.Errorf("%s: %s", v.Kind, v.Detail)
	}
	return info, nil
}

const rule = "the C01 scheduler harness; every Snapshot() result (Synchronization, concurrent readers, final) is checked: no duplicate objects, order by namespace/name and consistent relative order across snapshots, filterResult belongs to the entry's object state, full object present iff keepFullObjectsInMemory, content equals the reference cache model (fold of the initial list and the watch events delivered to each informer before it was read), and after the cluster became quiet the snapshot equals the matching objects of the fake cluster. Non-trivial: the history contains a delete or a namespace labelled after start. Distinct = distinct cases."

func TestSched(t *testing.T) {
	ev.Main(t, ev.Spec[ksched.Case]{Property: "C02", Part: "sched", Rule: rule, Gen: ksched.Gen, Run: run, RegressRepeat: 3})
}
