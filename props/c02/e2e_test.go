package c02

import (
	"fmt"
	"testing"

	"verif/internal/e2e"
	"verif/internal/ev"
	"verif/internal/kit"
)

func runE2E(c e2e.Case) (ev.Info, error) {
	info := ev.Info{}
	tr, err := e2e.Run(c)
	if err != nil {
		return info, err
	}
	if len(tr.Problems) > 0 {
		return info, fmt.Errorf("TIMING: %v", tr.Problems)
	}
	// 1. inside one execution the snapshot of a binding is identical everywhere it appears
	for _, ex := range tr.Execs {
		hook := c.Hook(ex.Hook)
		if hook == nil || hook.V0 {
			continue
		}
		seen := map[string]string{}
		uses := map[string]int{}
		for i, ctx := range ex.Contexts {
			if snaps, ok := ctx["snapshots"].(map[string]any); ok {
				for name, l := range snaps {
					cn := kit.Canon(l)
					uses[name]++
					if prev, ok := seen[name]; ok && prev != cn {
						return info, fmt.Errorf("OBSERVED: hook %s execution %d: snapshot of binding %s differs inside one binding context file (context %d): %s vs %s", ex.Hook, ex.Seq, name, i, prev, cn)
					}
					seen[name] = cn
				}
			}
			if ctx["type"] == "Synchronization" {
				name, _ := ctx["binding"].(string)
				cn := kit.Canon(ctx["objects"])
				uses[name]++
				if prev, ok := seen[name]; ok && prev != cn {
					return info, fmt.Errorf("OBSERVED: hook %s execution %d: 'objects' of the Synchronization of %s differ from its snapshot in the same file: %s vs %s", ex.Hook, ex.Seq, name, cn, prev)
				}
				seen[name] = cn
			}
		}
		for _, n := range uses {
			if n >= 2 {
				info.NonTrivial = true
			}
		}
		// structure of every list
		for _, ctx := range ex.Contexts {
			lists := map[string][]any{}
			if snaps, ok := ctx["snapshots"].(map[string]any); ok {
				for name, l := range snaps {
					if ll, ok := l.([]any); ok {
						lists[name] = ll
					}
				}
			}
			if ctx["type"] == "Synchronization" {
				if ll, ok := ctx["objects"].([]any); ok {
					lists[ctx["binding"].(string)] = ll
				}
			}
			for name, l := range lists {
				kb := hook.KubeBinding(name)
				if kb == nil || !kb.KeepFull {
					continue
				}
				_, dup, sorted, ok := e2e.ListState(l)
				if !ok {
					continue
				}
				if dup != "" {
					return info, fmt.Errorf("OBSERVED: hook %s execution %d: object %s is listed twice in the snapshot of %s", ex.Hook, ex.Seq, dup, name)
				}
				if !sorted {
					return info, fmt.Errorf("OBSERVED: hook %s execution %d: snapshot of %s is not ordered by namespace and name", ex.Hook, ex.Seq, name)
				}
			}
		}
	}
	// 2. once the cluster is quiet the snapshots equal the cluster: the last execution of every schedule binding
	//    (final ticks are injected after the last change) and, after a restart, the Synchronization views
	for _, h := range c.Hooks {
		if h.V0 {
			continue
		}
		ctxs := tr.Contexts(h.Name)
		for _, sb := range h.Sched {
			var last *e2e.CtxRef
			for i := range ctxs {
				if ctxs[i].Ctx["binding"] == sb.Name && (ctxs[i].Ctx["type"] == "Schedule" || ctxs[i].Ctx["type"] == "Group") && ctxs[i].Exec.Exit == 0 {
					last = &ctxs[i]
				}
			}
			if last == nil || c.Restart || last.Exec.Start < tr.FinalTicksAt {
				// (grouped schedule bindings of one queue are compacted into one Group context: not every
				// binding gets an execution of its own from the final ticks)
				continue
			}
			snaps, _ := last.Ctx["snapshots"].(map[string]any)
			for name, l := range snaps {
				kb := h.KubeBinding(name)
				ll, _ := l.([]any)
				if kb == nil {
					continue
				}
				want := tr.Matching(*kb)
				if !kb.KeepFull {
					if len(ll) != len(want) {
						return info, fmt.Errorf("hook %s: at quiescence the snapshot of %s lists %d objects, %d objects of the cluster match the binding", h.Name, name, len(ll), len(want))
					}
					continue
				}
				got, _, _, ok := e2e.ListState(ll)
				if ok && e2e.FmtState(got) != e2e.FmtState(want) {
					return info, fmt.Errorf("hook %s: at quiescence the snapshot of %s shows %s, the matching objects of the cluster are %s", h.Name, name, e2e.FmtState(got), e2e.FmtState(want))
				}
				info.Labels = append(info.Labels, "quiescent-snapshot-checked")
			}
		}
		if tr.Restarted {
			n := 0
			for i := range tr.Execs {
				ex := &tr.Execs[i]
				if ex.Hook != h.Name || i < tr.RestartIndex || ex.Exit != 0 {
					continue
				}
				for _, ctx := range ex.Contexts {
					if ctx["type"] != "Synchronization" {
						continue
					}
					kb := h.KubeBinding(ctx["binding"].(string))
					if kb == nil || !kb.KeepFull {
						continue
					}
					ll, _ := ctx["objects"].([]any)
					got, _, _, ok := e2e.ListState(ll)
					want := tr.Matching(*kb)
					if ok && e2e.FmtState(got) != e2e.FmtState(want) {
						return info, fmt.Errorf("hook %s: after a restart the Synchronization of %s shows %s, the matching objects of the cluster are %s", h.Name, kb.Name, e2e.FmtState(got), e2e.FmtState(want))
					}
					n++
				}
			}
			if n > 0 {
				info.Labels = append(info.Labels, "restart-sync-checked")
				info.NonTrivial = true
			}
		}
	}
	return info, nil
}

const ruleE2E = "generated scenarios through the full operator (see C09), 1 in 4 with a shutdown, cluster changes while the operator is down, and a restart on the same cluster; every binding context file: the snapshot of a binding is byte-identical everywhere it occurs in that file (snapshots of several combined contexts, objects of a self-including Synchronization), no object twice, ordered by namespace/name; at quiescence (ticks injected after the last change) the snapshots equal the matching objects of the fake cluster; after a restart the Synchronization views equal the cluster. Non-trivial: a binding's snapshot used >= 2 times in one file, or a restart."

func TestE2E(t *testing.T) {
	ev.Main(t, ev.Spec[e2e.Case]{Property: "C02", Part: "e2e", Rule: ruleE2E, Gen: e2e.Gen, Run: runE2E, Journal: true})
}
