package c20

import (
	"fmt"
	"os"
	"path/filepath"
	"sort"
	"strings"
	"testing"

	"pgregory.net/rapid"

	"verif/internal/ev"
	"verif/internal/hk"
	"verif/internal/vh"
)

type Entry struct {
	Dir    []string `json:"dir"`    // directory components below the root
	Name   string   `json:"name"`   // file name
	Mode   uint32   `json:"mode"`   // permission bits
	Config string   `json:"config"` // valid-json valid-yaml valid-schedule exit1 badtype badversion unknownfield garbage
	// Link: the entry is a symbolic link to an executable file kept in a hidden directory (..data/), the layout of a
	// ConfigMap or Secret volume
	Link bool `json:"link,omitempty"`
}

type Case struct {
	RootName string  `json:"root"`
	Entries  []Entry `json:"entries"`
}

var dirPool = []string{"a", "b", "a b", "a-b", "a.b", "a!", "lib", "library", "lib.d", ".git", ".x", "sub"}
var basePool = []string{"hook", "run", "00-f", "z!", "Hook", "cmd", "ctxt", "dump-to-json", "render_yaml", "yaml", "restart-systemd"}
var extPool = []string{".sh", ".py", "", ".yaml", ".json", ".md", ".txt", ".yml", ".sh.txt", ".txt.sh"}
var modePool = []uint32{0o644, 0o600, 0o755, 0o700, 0o100, 0o010, 0o001, 0o111, 0o750, 0o755, 0o755}
var cfgPool = []string{"valid-json", "valid-json", "valid-json", "valid-yaml", "valid-yaml", "valid-schedule", "valid-settings-only", "valid-json", "valid-json", "exit1", "badtype", "badversion", "unknownfield", "garbage"}

func configText(kind string) (string, int) {
	switch kind {
	case "valid-json":
		return `{"configVersion":"v1","onStartup":5}`, 0
	case "valid-yaml":
		return "configVersion: v1\nonStartup: 1\n", 0
	case "valid-schedule":
		return `{"configVersion":"v1","schedule":[{"name":"s","crontab":"* * * * *"}]}`, 0
	case "valid-settings-only":
		// a valid configuration without any binding: the file is a hook all the same
		return `{"configVersion":"v1","settings":{"executionMinInterval":"3s","executionBurst":1}}`, 0
	case "exit1":
		return `{"configVersion":"v1","onStartup":5}`, 1
	case "badtype":
		return `{"configVersion":"v1","onStartup":"first"}`, 0
	case "badversion":
		return `{"configVersion":"v9","onStartup":1}`, 0
	case "unknownfield":
		return `{"configVersion":"v1","onStartup":1,"onShutdown":2}`, 0
	default:
		return "}{ not: [a config", 0
	}
}

func isValid(kind string) bool { return strings.HasPrefix(kind, "valid") }

func gen(t *rapid.T) Case {
	c := Case{RootName: "hooks"}
	if rapid.IntRange(0, 19).Draw(t, "oddroot") == 0 {
		c.RootName = rapid.SampledFrom([]string{"lib", ".hooks", "hooks.d"}).Draw(t, "root")
	}
	n := rapid.IntRange(1, 12).Draw(t, "n")
	allValid := rapid.IntRange(0, 2).Draw(t, "allvalid") == 0
	seen := map[string]bool{}
	for i := 0; i < n; i++ {
		e := Entry{}
		depth := rapid.IntRange(0, 4).Draw(t, "depth")
		for d := 0; d < depth; d++ {
			e.Dir = append(e.Dir, rapid.SampledFrom(dirPool).Draw(t, "dir"))
		}
		e.Name = rapid.SampledFrom(basePool).Draw(t, "base") + rapid.SampledFrom(extPool).Draw(t, "ext")
		if rapid.IntRange(0, 9).Draw(t, "dot") == 0 {
			e.Name = "." + e.Name
		}
		e.Mode = rapid.SampledFrom(modePool).Draw(t, "mode")
		e.Config = rapid.SampledFrom(cfgPool).Draw(t, "cfg")
		if allValid && !isValid(e.Config) {
			e.Config = "valid-json"
		}
		if rapid.IntRange(0, 5).Draw(t, "link") == 0 {
			e.Link = true
			e.Mode = 0o755
		}
		p := filepath.Join(append(append([]string{}, e.Dir...), e.Name)...)
		if seen[p] {
			continue
		}
		seen[p] = true
		c.Entries = append(c.Entries, e)
	}
	return c
}

func rel(e Entry) string {
	return strings.Join(append(append([]string{}, e.Dir...), e.Name), "/")
}

// isHook applies the statement of C20 to the generated description.
func isHook(e Entry) bool {
	if e.Mode&0o111 == 0 {
		return false
	}
	if strings.HasPrefix(e.Name, ".") {
		return false
	}
	switch filepath.Ext(e.Name) {
	case ".yaml", ".json", ".md", ".txt":
		return false
	}
	for _, d := range e.Dir {
		if d == "lib" || strings.HasPrefix(d, ".") {
			return false
		}
	}
	return true
}

func runCase(c Case) (ev.Info, error) {
	info := ev.Info{}
	scratch := hk.Scratch("c20")
	defer os.RemoveAll(scratch)
	root := filepath.Join(scratch, c.RootName)
	tmp := filepath.Join(scratch, "tmp")
	if err := os.MkdirAll(tmp, 0o755); err != nil {
		return info, fmt.Errorf("harness: %v", err)
	}
	tree, err := vh.NewTree(root, hk.VHookBin())
	if err != nil {
		return info, fmt.Errorf("harness: %v", err)
	}
	var expected []string
	kind := map[string]string{}
	excludedExec := 0
	links := 0
	for i, e := range c.Entries {
		txt, code := configText(e.Config)
		if e.Link {
			target := fmt.Sprintf("..data/%d/%s", i, e.Name)
			if err := tree.AddHook(target, 0o755, vh.Script{Config: txt, ConfigExit: code}); err != nil {
				return info, fmt.Errorf("harness: %v", err)
			}
			lp := filepath.Join(root, rel(e))
			if err := os.MkdirAll(filepath.Dir(lp), 0o755); err != nil {
				return info, fmt.Errorf("harness: %v", err)
			}
			rt, err := filepath.Rel(filepath.Dir(lp), filepath.Join(root, target))
			if err != nil {
				return info, fmt.Errorf("harness: %v", err)
			}
			if err := os.Symlink(rt, lp); err != nil {
				return info, fmt.Errorf("harness: %v", err)
			}
			if err := tree.SetScript(rel(e), vh.Script{Config: txt, ConfigExit: code}); err != nil {
				return info, fmt.Errorf("harness: %v", err)
			}
			if isHook(e) {
				links++
			}
		} else if err := tree.AddHook(rel(e), os.FileMode(e.Mode), vh.Script{Config: txt, ConfigExit: code}); err != nil {
			return info, fmt.Errorf("harness: %v", err)
		}
		kind[rel(e)] = e.Config
		if isHook(e) {
			expected = append(expected, rel(e))
		} else if e.Mode&0o111 != 0 {
			excludedExec++
		}
	}
	sort.Strings(expected)
	firstBad := -1
	for i, h := range expected {
		if !isValid(kind[h]) {
			firstBad = i
			break
		}
	}
	if excludedExec >= 1 && len(expected) >= 2 {
		info.NonTrivial = true
	}
	if links > 0 {
		info.Labels = append(info.Labels, "symlinked-hook")
	}
	if c.RootName != "hooks" {
		info.Labels = append(info.Labels, "root:"+c.RootName)
	}

	hm := hk.NewManager(root, tmp)
	initErr := hm.Init()
	recs, err := tree.ReadLog()
	if err != nil {
		return info, fmt.Errorf("harness: %v", err)
	}
	var invoked []string
	for _, r := range recs {
		if r.Phase != "config" {
			return info, fmt.Errorf("hook %s was executed without --config during Init", r.Hook)
		}
		if len(r.Args) != 1 || r.Args[0] != "--config" {
			return info, fmt.Errorf("hook %s was invoked with arguments %v", r.Hook, r.Args)
		}
		if r.Cwd != root {
			return info, fmt.Errorf("hook %s was asked for --config in directory %s, not in the hooks directory", r.Hook, r.Cwd)
		}
		invoked = append(invoked, r.Hook)
	}
	if firstBad < 0 {
		info.Labels = append(info.Labels, "all-valid")
		if initErr != nil {
			return info, fmt.Errorf("Init failed although every hook prints a valid config: %v (expected hooks %v)", initErr, expected)
		}
		names := hm.GetHookNames()
		if fmt.Sprint(names) != fmt.Sprint(expected) {
			return info, fmt.Errorf("hooks discovered %v, expected %v", names, expected)
		}
		if fmt.Sprint(invoked) != fmt.Sprint(expected) {
			return info, fmt.Errorf("--config invocations %v, expected exactly one per hook in lexical order %v", invoked, expected)
		}
		return info, nil
	}
	info.Labels = append(info.Labels, "failing:"+kind[expected[firstBad]])
	if initErr == nil {
		return info, fmt.Errorf("Init succeeded although hook %s has a failing/invalid --config (%s)", expected[firstBad], kind[expected[firstBad]])
	}
	named := false
	for _, h := range expected {
		if !isValid(kind[h]) && strings.Contains(initErr.Error(), h) {
			named = true
		}
	}
	if !named {
		return info, fmt.Errorf("Init error does not name a failing hook: %v", initErr)
	}
	want := expected[:firstBad+1]
	if fmt.Sprint(invoked) != fmt.Sprint(want) {
		return info, fmt.Errorf("--config invocations %v, expected %v (lexical order, stop at the first failing hook)", invoked, want)
	}
	return info, nil
}

const rule = "generated hook directory trees (1-12 files, depth <= 4, directory names incl. lib, library, lib.d, hidden, names with space, dot, dash and '!', file names with excluded and near-excluded extensions and dot prefixes, 9 permission patterns, 1 file in 6 a symbolic link to an executable file kept under a hidden ..data/ directory as in a ConfigMap volume, root directory occasionally named lib/.hooks/hooks.d), every file a scripted hook with valid (json, yaml, schedule) or failing (exit 1, wrong type, unknown version, unknown field, garbage) --config; real hook.Manager.Init; oracle: independent predicate over the generated description, sorted names, invocation log (once each, from the hooks directory, lexical order, stop at first failure), error names a failing hook. Non-trivial: >= 1 excluded executable and >= 2 hooks. Distinct = distinct trees."

func TestDiscovery(t *testing.T) {
	ev.Main(t, ev.Spec[Case]{Property: "C20", Part: "discovery", Rule: rule, Gen: gen, Run: runCase})
}
