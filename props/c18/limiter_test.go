package c18

import (
	"fmt"
	"math"
	"testing"
	"time"

	"github.com/flant/shell-operator/pkg/hook"
	"github.com/flant/shell-operator/pkg/hook/config"
	"pgregory.net/rapid"

	"verif/internal/ev"
	"verif/internal/hcfg"
	_ "verif/internal/kit"
)

type LimCase struct {
	HasSettings bool    `json:"has_settings"`
	Interval    string  `json:"interval"` // duration string as written in the config
	Burst       int     `json:"burst"`
	YAML        bool    `json:"yaml"`
	Gaps        []int64 `json:"gaps_us"` // arrival gaps in microseconds (synthetic time)
}

func genLim(t *rapid.T) LimCase {
	c := LimCase{HasSettings: rapid.IntRange(0, 5).Draw(t, "has") > 0, YAML: rapid.Bool().Draw(t, "yaml")}
	unit := rapid.SampledFrom([]string{"ms", "s", "m", "us"}).Draw(t, "unit")
	var n int
	switch unit {
	case "us":
		n = rapid.IntRange(1000, 900000).Draw(t, "n")
	case "ms":
		n = rapid.IntRange(1, 10000).Draw(t, "n")
	case "s":
		n = rapid.IntRange(1, 10).Draw(t, "n")
	case "m":
		n = 1
	}
	c.Interval = fmt.Sprintf("%d%s", n, unit)
	if unit == "s" && rapid.IntRange(0, 4).Draw(t, "compound") == 0 {
		c.Interval = fmt.Sprintf("%ds%dms", n, rapid.IntRange(1, 999).Draw(t, "ms"))
	}
	// (0: one execution at a time, as the limiter's default; the loader rejects settings without executionBurst)
	c.Burst = rapid.SampledFrom([]int{0, 0, 1, 1, 2, 3, 4, 5, 6, 7, 8, 9, 10}).Draw(t, "burst")
	iv, _ := time.ParseDuration(c.Interval)
	k := rapid.IntRange(2, 60).Draw(t, "k")
	for i := 0; i < k; i++ {
		var g int64
		switch rapid.IntRange(0, 3).Draw(t, "pattern") {
		case 0, 1: // burst: arrive together
			g = 0
		case 2: // steady-ish: a fraction of the interval
			g = int64(iv/time.Microsecond) * int64(rapid.IntRange(1, 30).Draw(t, "f")) / 10
		case 3: // long pause
			g = int64(iv/time.Microsecond) * int64(rapid.IntRange(1, 20).Draw(t, "p"))
		}
		c.Gaps = append(c.Gaps, g)
	}
	return c
}

func runLim(c LimCase) (ev.Info, error) {
	info := ev.Info{}
	d := hcfg.D{OnStartup: hcfg.I(1)}
	if c.HasSettings {
		d.Settings = &hcfg.Settings{Interval: c.Interval}
		if c.Burst >= 0 {
			d.Settings.Burst = hcfg.I(c.Burst)
		}
	}
	text := d.JSON()
	if c.YAML {
		text = d.YAML()
	}
	hc := &config.HookConfig{}
	if err := hc.LoadAndValidate([]byte(text)); err != nil {
		return info, fmt.Errorf("harness: config rejected: %v\n%s", err, text)
	}
	lim := hook.CreateRateLimiter(hc)
	iv, err := time.ParseDuration(c.Interval)
	if err != nil || iv <= 0 {
		return info, fmt.Errorf("harness: bad interval %q", c.Interval)
	}
	base := time.Unix(1_700_000_000, 0)
	now := base
	var starts []time.Duration
	for _, g := range c.Gaps {
		now = now.Add(time.Duration(g) * time.Microsecond)
		r := lim.ReserveN(now, 1)
		if !r.OK() {
			return info, fmt.Errorf("limiter refuses a single execution (burst %d)", c.Burst)
		}
		delay := r.DelayFrom(now)
		if !c.HasSettings && delay != 0 {
			return info, fmt.Errorf("hook without settings is throttled: execution %d delayed by %s", len(starts), delay)
		}
		starts = append(starts, now.Add(delay).Sub(base))
	}
	if !c.HasSettings {
		info.Labels = append(info.Labels, "no-settings")
		return info, nil
	}
	// an executionBurst written as 0 stands for one execution at a time
	B := c.Burst
	if B < 1 {
		B = 1
		info.Labels = append(info.Labels, "burst-zero")
	}
	if len(starts) >= B+2 {
		info.NonTrivial = true
	}
	// every window [s_i, s_j]: count <= B + ceil(T/I)
	for i := 0; i < len(starts); i++ {
		for j := i; j < len(starts); j++ {
			T := starts[j] - starts[i]
			if T < 0 {
				return info, fmt.Errorf("execution %d is granted before execution %d", j, i)
			}
			bound := B + int(math.Ceil(float64(T)/float64(iv)))
			if n := j - i + 1; n > bound {
				return info, fmt.Errorf("%d executions start within a window of %s (executions %d..%d), limit is burst %d + ceil(T/I) = %d for interval %s", n, T, i, j, B, bound, iv)
			}
		}
	}
	return info, nil
}

const ruleLim = "settings (executionMinInterval as 'Nus/ms/s/m' or compound, executionBurst 1..10 or 0 (one at a time), or no settings) rendered as JSON or YAML, loaded by LoadAndValidate, limiter taken from the real CreateRateLimiter and driven with synthetic time through ReserveN over generated arrival patterns (bursts, steady streams, pauses; 2-60 arrivals); every window of grant times must satisfy count <= B + ceil(T/I); without settings every arrival is granted immediately. Non-trivial: >= B+2 executions of a limited hook."

func TestLimiter(t *testing.T) {
	ev.Main(t, ev.Spec[LimCase]{Property: "C18", Part: "limiter", Rule: ruleLim, Gen: genLim, Run: runLim})
}
