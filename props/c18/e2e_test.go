package c18

import (
	"fmt"
	shop "github.com/flant/shell-operator/pkg/shell-operator"
	"math"
	"os"
	"testing"
	"time"

	"pgregory.net/rapid"

	"verif/internal/ev"
	"verif/internal/hcfg"
	"verif/internal/kit"
	"verif/internal/opkit"
	"verif/internal/vh"
)

type E2ECase struct {
	HasSettings bool `json:"has_settings"`
	IntervalMs  int  `json:"interval_ms"`
	Burst       int  `json:"burst"`
	Ticks       int  `json:"ticks"`
	FailTimes   int  `json:"fail_times"` // the first execution fails this many times before it succeeds
	GapMs       int  `json:"gap_ms"`     // pause between injected ticks (0 = burst)
	SharedQueue bool `json:"shared_queue"`
	// Queues: the limited hook has this many schedule bindings, each in a queue of its own (0 or 1: one binding);
	// every injected tick round fires all of them. The limit is per hook, not per queue.
	Queues int `json:"queues,omitempty"`
	// Kube: number of (ungrouped) kubernetes bindings of the limited hook: their Synchronization executions at
	// start-up are executions of the hook like any other
	Kube int `json:"kube,omitempty"`
	// Webhook: the limited hook also has a kubernetesValidating binding (requests for it are not generated)
	Webhook bool `json:"webhook,omitempty"`
}

func genE2E(t *rapid.T) E2ECase {
	return E2ECase{
		HasSettings: rapid.IntRange(0, 5).Draw(t, "has") > 0,
		IntervalMs:  rapid.SampledFrom([]int{200, 300, 400}).Draw(t, "interval"),
		Burst:       rapid.IntRange(1, 2).Draw(t, "burst"),
		Ticks:       rapid.IntRange(2, 6).Draw(t, "ticks"),
		FailTimes:   rapid.SampledFrom([]int{0, 0, 1, 3, 4}).Draw(t, "fails"),
		GapMs:       rapid.SampledFrom([]int{0, 0, 20, 100}).Draw(t, "gap"),
		SharedQueue: rapid.Bool().Draw(t, "shared"),
		Queues:      rapid.SampledFrom([]int{1, 1, 2, 3}).Draw(t, "queues"),
		Kube:        rapid.SampledFrom([]int{0, 0, 0, 3, 4}).Draw(t, "kube"),
		Webhook:     rapid.IntRange(0, 2).Draw(t, "webhook") == 0,
	}
}

func runE2E(c E2ECase) (ev.Info, error) {
	info := ev.Info{}
	env, err := opkit.New("c18", kit.NewCluster("default"))
	if err != nil {
		return info, fmt.Errorf("harness: %v", err)
	}
	defer env.Close()
	// the operator's "how long to wait for queues at shutdown" tunable, set below every generated interval: no
	// timeout of the operator may cut a limiter wait short
	shop.WaitQueuesTimeout = 150 * time.Millisecond
	q := "q1"
	if c.SharedQueue {
		q = ""
	}
	d := hcfg.D{Schedules: []hcfg.Sched{{Name: "tick", Crontab: "0 0 1 1 *", Queue: q}}}
	extraCrontabs := []string{"0 0 3 1 *", "0 0 4 1 *"}
	for j := 1; j < c.Queues && j <= 2; j++ {
		d.Schedules = append(d.Schedules, hcfg.Sched{Name: fmt.Sprintf("tick%d", j), Crontab: extraCrontabs[j-1], Queue: fmt.Sprintf("qx%d", j)})
	}
	for j := 0; j < c.Kube; j++ {
		d.Kube = append(d.Kube, hcfg.Kube{Name: fmt.Sprintf("k%d", j), Kind: "ConfigMap", ApiVersion: "v1"})
	}
	if c.Webhook {
		d.Validating = []hcfg.Adm{{Name: "limited.example.com", Rules: []hcfg.AdmRule{{Operations: []string{"CREATE"}, APIGroups: []string{""}, APIVersions: []string{"v1"}, Resources: []string{"pods"}}}}}
	}
	if c.HasSettings {
		d.Settings = &hcfg.Settings{Interval: fmt.Sprintf("%dms", c.IntervalMs), Burst: hcfg.I(c.Burst)}
	}
	var rules []vh.Rule
	if c.FailTimes > 0 {
		rules = append(rules, vh.Rule{Times: c.FailTimes, Do: vh.Behaviour{Exit: 1}})
	}
	kit.Must(env.Tree.AddHook("limited", 0o755, vh.Script{Config: d.JSON(), Rules: rules}))
	// another hook without settings sharing the main queue
	kit.Must(env.Tree.AddHook("other", 0o755, vh.Script{Config: hcfg.D{Schedules: []hcfg.Sched{{Name: "o", Crontab: "0 0 2 1 *"}}}.JSON()}))
	if err := env.Assemble(); err != nil {
		return info, fmt.Errorf("harness: assemble: %v", err)
	}
	env.Start()
	if !env.WaitIdle(3*time.Millisecond, 20*time.Second) {
		return info, fmt.Errorf("harness: operator did not become idle after start")
	}
	for _, qn := range []string{"main", "q1", "qx1", "qx2"} {
		if tq := env.Op.TaskQueues.GetByName(qn); tq != nil {
			real := tq.ExponentialBackoffFn
			tq.ExponentialBackoffFn = func(n int) time.Duration {
				if d := real(n); d < 60*time.Millisecond {
					return d
				}
				return 60 * time.Millisecond
			}
		}
	}
	for i := 0; i < c.Ticks; i++ {
		env.Tick("0 0 1 1 *")
		for j := 1; j < c.Queues && j <= 2; j++ {
			env.Tick(extraCrontabs[j-1])
		}
		if i%2 == 0 {
			env.Tick("0 0 2 1 *")
		}
		if c.GapMs > 0 {
			time.Sleep(time.Duration(c.GapMs) * time.Millisecond)
		}
	}
	if !env.WaitIdle(20*time.Millisecond, 60*time.Second) {
		return info, fmt.Errorf("TIMING: operator did not become idle within 60s")
	}
	recs, _ := env.Tree.ReadLog()
	var starts []int64
	nctx := 0
	for _, r := range recs {
		if r.Hook == "limited" && r.Phase == "start" {
			starts = append(starts, r.T)
			if r.Exit == 0 {
				nctx++
			}
		}
	}
	if os.Getenv("DBG_STARTS") != "" {
		for i := 1; i < len(starts); i++ {
			fmt.Fprintf(os.Stderr, "DBG start %d +%dms\n", i, (starts[i]-starts[i-1])/1000000)
		}
	}
	if len(starts) == 0 {
		return info, fmt.Errorf("the hook was never executed although %d ticks were injected", c.Ticks)
	}
	if !c.HasSettings {
		info.Labels = append(info.Labels, "no-settings")
		return info, nil
	}
	iv := time.Duration(c.IntervalMs) * time.Millisecond
	if len(starts) >= c.Burst+2 {
		info.NonTrivial = true
	}
	if c.FailTimes >= 3 {
		info.Labels = append(info.Labels, "retries>=3")
	}
	if c.Queues > 1 {
		info.Labels = append(info.Labels, "bindings-in-several-queues")
	}
	if c.Kube > 0 {
		info.Labels = append(info.Labels, "synchronizations-at-start")
	}
	for i := 0; i < len(starts); i++ {
		for j := i + 1; j < len(starts); j++ {
			T := time.Duration(starts[j] - starts[i])
			// one token of slack: the limiter bounds reservation times, Wait may return late by different amounts
			bound := c.Burst + int(math.Ceil(float64(T)/float64(iv))) + 1
			if n := j - i + 1; n > bound {
				return info, fmt.Errorf("%d executions of the hook started within %s (executions %d..%d), settings allow burst %d + ceil(T/%s) = %d (+1 slack for timer lateness)", n, T, i, j, c.Burst, iv, bound-1)
			}
		}
	}
	return info, nil
}

const ruleE2E = "the real operator with a scripted hook carrying settings (executionMinInterval 200-400ms, executionBurst 1-2, or none) in its own or the main queue (shared with an unthrottled hook), in half of the cases with 2-3 schedule bindings in queues of their own (the limit is per hook), in 2 of 5 cases with 3-4 ungrouped kubernetes bindings whose Synchronization executions at start-up count as executions; in a third of the cases the hook also declares a kubernetesValidating binding; 2-6 tick rounds injected as a burst or with gaps; the first execution fails 0-4 times and is retried; the operator's shutdown wait (WaitQueuesTimeout) is set to 150ms, below every interval; execution starts are taken from the hook's own log; oracle: every window of starts satisfies count <= B + ceil(T/I) + 1 (one token of slack for timer lateness; the exact bound is decided on synthetic time by the limiter part). Real clock, sampled. Non-trivial: >= B+2 executions of a limited hook."

func TestE2E(t *testing.T) {
	ev.Main(t, ev.Spec[E2ECase]{Property: "C18", Part: "e2e", Rule: ruleE2E, Gen: genE2E, Run: runE2E, Journal: true})
}
