package c15

import (
	"bytes"
	"encoding/json"
	"fmt"
	"net/http"
	"net/http/httptest"
	"sync"
	"testing"
	"time"

	"pgregory.net/rapid"

	"verif/internal/ev"
	"verif/internal/hcfg"
	"verif/internal/kit"
	"verif/internal/opkit"
	"verif/internal/vh"
)

// Overlapping ConversionReview requests: they are served in the HTTP goroutines, so several executions of one hook
// run at the same time. Every execution writes its response and parks; the harness lets them end in a generated
// order. Every request must get the objects / the failure its own execution produced.

type CCReq struct {
	Objects int    `json:"objects"`
	Outcome string `json:"outcome"` // ok failed-message drop
}

type CCCase struct {
	Reqs    []CCReq `json:"reqs"`
	Release []int   `json:"release"`
}

func genConcurrentConv(t *rapid.T) CCCase {
	c := CCCase{}
	n := rapid.IntRange(2, 4).Draw(t, "n")
	for i := 0; i < n; i++ {
		c.Reqs = append(c.Reqs, CCReq{Objects: rapid.IntRange(1, 3).Draw(t, "nobj"), Outcome: rapid.SampledFrom([]string{"ok", "ok", "ok", "failed-message", "drop"}).Draw(t, "outcome")})
	}
	idx := make([]int, n)
	for i := range idx {
		idx[i] = i
	}
	c.Release = rapid.Permutation(idx).Draw(t, "release")
	return c
}

func runConcurrentConv(c CCCase) (ev.Info, error) {
	info := ev.Info{}
	env, err := opkit.New("c15c", kit.NewCluster("default"))
	if err != nil {
		return info, fmt.Errorf("harness: %v", err)
	}
	defer env.Close()
	const crd = "crontabs.stable.example.com"
	d := hcfg.D{Conversion: []hcfg.Conv{{Name: "conv", CrdName: crd, Conversions: []hcfg.ConvRule{{From: "v1alpha1", To: "v1"}}}}}
	var rules []vh.Rule
	for i, r := range c.Reqs {
		do := vh.Behaviour{PostGate: fmt.Sprintf("pg%d", i)}
		switch r.Outcome {
		case "ok":
			do.ConvertTo = full("v1")
		case "drop":
			do.ConvertTo, do.ConvertDrop = full("v1"), 1
		case "failed-message":
			do.Conversion = &vh.File{Content: fmt.Sprintf(`{"failedMessage":"cannot convert request %d"}`, i)}
		}
		rules = append(rules, vh.Rule{Match: fmt.Sprintf(`ccuid-%d"`, i), Do: do})
	}
	if err := env.Tree.AddHook("hook", 0o755, vh.Script{Config: d.JSON(), Rules: rules}); err != nil {
		return info, fmt.Errorf("harness: %v", err)
	}
	if err := env.Assemble(); err != nil {
		return info, fmt.Errorf("harness: assemble: %v", err)
	}
	router := env.Op.ConversionWebhookManager.Handler.Router
	recs := make([]*httptest.ResponseRecorder, len(c.Reqs))
	done := make([]chan struct{}, len(c.Reqs))
	var wg sync.WaitGroup
	for i, r := range c.Reqs {
		i := i
		var objs []any
		for k := 0; k < r.Objects; k++ {
			objs = append(objs, map[string]any{"apiVersion": full("v1alpha1"), "kind": "CronTab", "metadata": map[string]any{"name": fmt.Sprintf("ct-%d-%d", i, k), "namespace": "default"}})
		}
		body, _ := json.Marshal(map[string]any{"apiVersion": "apiextensions.k8s.io/v1", "kind": "ConversionReview", "request": map[string]any{"uid": fmt.Sprintf("ccuid-%d", i), "desiredAPIVersion": full("v1"), "objects": objs}})
		req := httptest.NewRequest(http.MethodPost, "/"+crd, bytes.NewReader(body))
		req.Header.Set("Content-Type", "application/json")
		recs[i] = httptest.NewRecorder()
		done[i] = make(chan struct{})
		wg.Add(1)
		go func() {
			defer wg.Done()
			defer close(done[i])
			router.ServeHTTP(recs[i], req)
		}()
	}
	release := func() {
		for i := range c.Reqs {
			_ = env.Tree.OpenGate(fmt.Sprintf("pg%d", i))
		}
		wg.Wait()
	}
	_, ok := env.Tree.WaitLog(20*time.Second, func(rs []vh.Record) bool {
		n := 0
		for _, r := range rs {
			if r.Phase == "written" {
				n++
			}
		}
		return n == len(c.Reqs)
	})
	if !ok {
		release()
		return info, fmt.Errorf("harness: not every request led to a parked hook execution within 20s")
	}
	for _, i := range c.Release {
		_ = env.Tree.OpenGate(fmt.Sprintf("pg%d", i))
		select {
		case <-done[i]:
		case <-time.After(20 * time.Second):
			release()
			return info, fmt.Errorf("request %d was not answered within 20s after its hook execution ended", i)
		}
	}
	wg.Wait()
	outcomes := map[string]bool{}
	for i, r := range c.Reqs {
		where := fmt.Sprintf("request %d (%+v; executions end in order %v)", i, r, c.Release)
		outcomes[r.Outcome] = true
		rec := recs[i]
		var review struct {
			Response *struct {
				UID              string           `json:"uid"`
				ConvertedObjects []map[string]any `json:"convertedObjects"`
				Result           struct {
					Status  string `json:"status"`
					Message string `json:"message"`
				} `json:"result"`
			} `json:"response"`
		}
		if rec.Code != http.StatusOK {
			return info, fmt.Errorf("%s: HTTP %d %s", where, rec.Code, rec.Body.String())
		}
		if err := json.Unmarshal(rec.Body.Bytes(), &review); err != nil || review.Response == nil {
			return info, fmt.Errorf("%s: answer is not a ConversionReview with a response: %s", where, rec.Body.String())
		}
		if review.Response.UID != fmt.Sprintf("ccuid-%d", i) {
			return info, fmt.Errorf("%s: answer carries uid %q", where, review.Response.UID)
		}
		success := review.Response.Result.Status == "Success"
		switch r.Outcome {
		case "ok":
			if !success {
				return info, fmt.Errorf("%s: its hook execution converted every object but the answer is %s", where, rec.Body.String())
			}
			if len(review.Response.ConvertedObjects) != r.Objects {
				return info, fmt.Errorf("%s: Success with %d objects, the request had %d", where, len(review.Response.ConvertedObjects), r.Objects)
			}
			for k, o := range review.Response.ConvertedObjects {
				md, _ := o["metadata"].(map[string]any)
				if o["apiVersion"] != full("v1") || md["name"] != fmt.Sprintf("ct-%d-%d", i, k) {
					return info, fmt.Errorf("%s: converted object %d is %v %v, expected this request's object ct-%d-%d in %s", where, k, o["apiVersion"], md["name"], i, k, full("v1"))
				}
			}
		case "drop":
			if success {
				return info, fmt.Errorf("%s: its hook execution dropped an object but the answer is Success: %s", where, rec.Body.String())
			}
		case "failed-message":
			if success {
				return info, fmt.Errorf("%s: its hook execution reported a failure but the answer is Success: %s", where, rec.Body.String())
			}
			if want := fmt.Sprintf("cannot convert request %d", i); !bytes.Contains([]byte(review.Response.Result.Message), []byte(want)) {
				return info, fmt.Errorf("%s: the answer does not relay the failedMessage its hook execution wrote (%q): %s", where, want, rec.Body.String())
			}
		}
	}
	info.NonTrivial = len(outcomes) > 1
	return info, nil
}

const ruleConcurrentConv = "one hook with one conversion rule; 2-4 ConversionReview requests (distinct uids, 1-3 objects with request-specific names) sent at the same time through the real HTTP handler, each with its own scripted outcome (convert all / failedMessage / drop an object); every hook execution writes its response and then parks on a gate of its own, the harness lets the executions end one by one in a generated order (owned by the harness); oracle per request: uid echo, Success with exactly its own objects in the desired version iff its own execution converted all of them, otherwise Failed relaying its own failedMessage. Non-trivial: overlapping executions with different outcomes."

func TestConcurrentConversions(t *testing.T) {
	ev.Main(t, ev.Spec[CCCase]{Property: "C15", Part: "concurrent", Rule: ruleConcurrentConv, Gen: genConcurrentConv, Run: runConcurrentConv, Journal: true})
}
