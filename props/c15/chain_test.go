package c15

import (
	"fmt"
	"strings"
	"testing"

	"github.com/flant/shell-operator/pkg/webhook/conversion"
	"pgregory.net/rapid"

	"verif/internal/ev"
	_ "verif/internal/kit"
)

type Action struct {
	K    string `json:"k"` // put | find
	From string `json:"from"`
	To   string `json:"to"`
	// Foreign: the source version of this find is spelled with another group than the one every rule is declared
	// with: it is a different version, no chain starts there
	Foreign bool `json:"foreign,omitempty"`
}

type Case struct {
	// Mode "one-group": versions of one group, spelled short or full at random ("v1" and "g.io/v1" are the same version).
	// Mode "multi-group": full spellings only; versions with different groups are different versions.
	Mode    string   `json:"mode"`
	Actions []Action `json:"actions"`
}

var shortPool = []string{"v1", "v1alpha1", "v1beta1", "v1beta2", "v2", "v10", "v3"}

const group = "stable.example.com"

func ident(mode, v string) string {
	if mode == "one-group" || mode == "one-group-full" {
		if i := strings.IndexRune(v, '/'); i >= 0 {
			return v[i+1:]
		}
	}
	return v
}

func gen(t *rapid.T) Case {
	c := Case{Mode: "one-group"}
	if rapid.IntRange(0, 3).Draw(t, "fullMode") == 0 {
		// every version is written with its group; some requests come from a version of another group
		c.Mode = "one-group-full"
	}
	var nodes []string
	if c.Mode == "one-group" || c.Mode == "one-group-full" {
		n := rapid.IntRange(2, 7).Draw(t, "n")
		nodes = rapid.Permutation(shortPool).Draw(t, "perm")[:n]
	} else {
		all := []string{"a.io/v1", "b.io/v1", "a.io/v2", "b.io/v2", "a.io/v1beta1", "b.io/v10", "a.io/v10"}
		n := rapid.IntRange(2, 7).Draw(t, "n")
		nodes = rapid.Permutation(all).Draw(t, "perm")[:n]
	}
	spell := func(v, label string) string {
		if c.Mode == "one-group-full" || (c.Mode == "one-group" && rapid.Bool().Draw(t, label)) {
			return group + "/" + v
		}
		return v
	}
	// rules: a backbone chain along the permutation (so that long paths exist) plus random edges
	type edge struct{ a, b int }
	var edges []edge
	back := rapid.IntRange(0, len(nodes)-1).Draw(t, "backbone")
	for i := 0; i < back; i++ {
		edges = append(edges, edge{i, i + 1})
	}
	extra := rapid.IntRange(0, 6).Draw(t, "extra")
	for i := 0; i < extra; i++ {
		edges = append(edges, edge{rapid.IntRange(0, len(nodes)-1).Draw(t, "ea"), rapid.IntRange(0, len(nodes)-1).Draw(t, "eb")})
	}
	order := rapid.Permutation(edges).Draw(t, "order")
	nfind := rapid.IntRange(1, 8).Draw(t, "nfind")
	// queries are interleaved with puts: position of each query among the puts
	type q struct{ pos, a, b int }
	var qs []q
	for i := 0; i < nfind; i++ {
		pos := len(order)
		if rapid.IntRange(0, 3).Draw(t, "early") == 0 {
			pos = rapid.IntRange(0, len(order)).Draw(t, "pos")
		}
		qs = append(qs, q{pos, rapid.IntRange(0, len(nodes)-1).Draw(t, "qa"), rapid.IntRange(0, len(nodes)-1).Draw(t, "qb")})
	}
	for i := 0; i <= len(order); i++ {
		for _, x := range qs {
			if x.pos == i && x.a != x.b {
				a := Action{K: "find", From: spell(nodes[x.a], "sf"), To: spell(nodes[x.b], "st")}
				if c.Mode == "one-group-full" && rapid.IntRange(0, 2).Draw(t, "foreign") == 0 {
					a.Foreign = true
					a.From = "other.example.com/" + nodes[x.a]
				}
				c.Actions = append(c.Actions, a)
			}
		}
		if i < len(order) {
			e := order[i]
			c.Actions = append(c.Actions, Action{K: "put", From: spell(nodes[e.a], "pf"), To: spell(nodes[e.b], "pt")})
		}
	}
	return c
}

// bfs returns the length of the shortest chain from a to b over the declared rules (0: unreachable).
func bfs(mode string, rules []conversion.Rule, from, to string) int {
	dist := map[string]int{ident(mode, from): 0}
	queue := []string{ident(mode, from)}
	for len(queue) > 0 {
		v := queue[0]
		queue = queue[1:]
		if v == ident(mode, to) {
			return dist[v]
		}
		for _, r := range rules {
			if ident(mode, r.FromVersion) == v {
				w := ident(mode, r.ToVersion)
				if _, ok := dist[w]; !ok {
					dist[w] = dist[v] + 1
					queue = append(queue, w)
				}
			}
		}
	}
	return 0
}

func runCase(c Case) (ev.Info, error) {
	info := ev.Info{Labels: []string{c.Mode}}
	cs := conversion.NewChainStorage()
	const crd = "crontabs.stable.example.com"
	var rules []conversion.Rule
	declared := map[conversion.Rule]bool{}
	for step, a := range c.Actions {
		switch a.K {
		case "put":
			r := conversion.Rule{FromVersion: a.From, ToVersion: a.To}
			cs.Get(crd).Put(r)
			rules = append(rules, r)
			declared[r] = true
		case "find":
			if ident(c.Mode, a.From) == ident(c.Mode, a.To) {
				continue
			}
			got := cs.FindConversionChain(crd, conversion.Rule{FromVersion: a.From, ToVersion: a.To})
			if a.Foreign {
				info.Labels = append(info.Labels, "foreign-group-request")
				if bfs(c.Mode, rules, a.From, a.To) >= 2 {
					info.NonTrivial = true
				}
				if len(got) > 0 {
					return info, fmt.Errorf("step %d: find %s->%s returned %v: every rule is declared for group %s, no declared rule starts at a version of another group", step, a.From, a.To, got, group)
				}
				continue
			}
			want := bfs(c.Mode, rules, a.From, a.To)
			if want >= 2 {
				info.NonTrivial = true
			}
			if want == 0 && len(got) > 0 {
				return info, fmt.Errorf("step %d: find %s->%s returned %v but no sequence of declared rules %v leads there", step, a.From, a.To, got, rules)
			}
			if want > 0 && len(got) == 0 {
				return info, fmt.Errorf("step %d: find %s->%s returned nothing although a chain of %d declared rules exists (rules %v)", step, a.From, a.To, want, rules)
			}
			if len(got) == 0 {
				continue
			}
			for i, r := range got {
				if !declared[r] {
					return info, fmt.Errorf("step %d: find %s->%s: element %d (%s) of chain %v is not a declared rule", step, a.From, a.To, i, r, got)
				}
				if i > 0 && ident(c.Mode, got[i-1].ToVersion) != ident(c.Mode, r.FromVersion) {
					return info, fmt.Errorf("step %d: find %s->%s: chain %v is broken between step %d and %d", step, a.From, a.To, got, i-1, i)
				}
			}
			if ident(c.Mode, got[0].FromVersion) != ident(c.Mode, a.From) {
				return info, fmt.Errorf("step %d: find %s->%s: chain %v does not start at the requested version", step, a.From, a.To, got)
			}
			if ident(c.Mode, got[len(got)-1].ToVersion) != ident(c.Mode, a.To) {
				return info, fmt.Errorf("step %d: find %s->%s: chain %v does not end at the requested version", step, a.From, a.To, got)
			}
			if len(got) >= 4 {
				info.Labels = append(info.Labels, "chain>=4")
			}
		}
	}
	return info, nil
}

const rule = "stateful histories of Put(rule)/Find(from,to) on conversion.ChainStorage over 2-7 versions from a pool with substring relations (v1, v1alpha1, v1beta1, v1beta2, v2, v10, v3), one group (a CRD has exactly one) with mixed short/full spellings, in a quarter of the cases every rule written with its group and some requests coming from the same version name of another group (no chain may be found); backbone chains plus random edges (forks, diamonds, cycles, self loops); oracle: reference BFS for existence, validity predicate for the returned chain (declared rules, starts at from, ends at to, consecutive). Non-trivial: a query whose shortest chain has >= 2 steps. Distinct = distinct action sequences."

func TestChain(t *testing.T) {
	ev.Main(t, ev.Spec[Case]{Property: "C15", Part: "chain", Rule: rule, Gen: gen, Run: runCase, RegressRepeat: 20})
}
