package c15

import (
	"bytes"
	"encoding/json"
	"fmt"
	"net/http"
	"net/http/httptest"
	"strings"
	"testing"

	"pgregory.net/rapid"

	"verif/internal/ev"
	"verif/internal/hcfg"
	"verif/internal/kit"
	"verif/internal/opkit"
	"verif/internal/vh"
)

type ConvRule struct {
	From    string `json:"from"` // as declared (short or full)
	To      string `json:"to"`
	Hook    int    `json:"hook"`
	Outcome string `json:"outcome"` // ok exit1 failed-message failed-message-and-objects empty drop extra
	// Other: the rule is declared for a second CRD (pears.stable.example.com) served by the same hooks
	Other bool `json:"other,omitempty"`
}

type ConvRequest struct {
	From    string `json:"from"` // short version names
	To      string `json:"to"`
	Objects int    `json:"objects"`
	// Other: the request is for the second CRD
	Other bool `json:"other,omitempty"`
}

type ConvCase struct {
	Rules    []ConvRule    `json:"rules"`
	Requests []ConvRequest `json:"requests"`
}

var convVersions = []string{"v1alpha1", "v1beta1", "v1", "v2", "v10"}

func short(v string) string {
	if i := strings.IndexRune(v, '/'); i >= 0 {
		return v[i+1:]
	}
	return v
}

func full(v string) string { return group + "/" + short(v) }

func genConv(t *rapid.T) ConvCase {
	c := ConvCase{}
	n := rapid.IntRange(2, 5).Draw(t, "nv")
	vs := rapid.Permutation(convVersions).Draw(t, "perm")[:n]
	spell := func(v, label string) string {
		if rapid.Bool().Draw(t, label) {
			return full(v)
		}
		return v
	}
	seen := map[string]bool{}
	addRule := func(a, b int) {
		if a == b || seen[vs[a]+">"+vs[b]] {
			return
		}
		seen[vs[a]+">"+vs[b]] = true
		outcome := "ok"
		if rapid.IntRange(0, 4).Draw(t, "bad") == 0 {
			outcome = rapid.SampledFrom([]string{"exit1", "failed-message", "failed-message", "failed-message-and-objects", "empty", "drop", "extra"}).Draw(t, "outcome")
		}
		c.Rules = append(c.Rules, ConvRule{From: spell(vs[a], "sf"), To: spell(vs[b], "st"), Hook: rapid.IntRange(0, 2).Draw(t, "hook"), Outcome: outcome})
	}
	for i := 0; i+1 < n; i++ {
		if rapid.IntRange(0, 5).Draw(t, "chain") > 0 {
			addRule(i, i+1)
		}
	}
	for i, m := 0, rapid.IntRange(0, 3).Draw(t, "extra"); i < m; i++ {
		addRule(rapid.IntRange(0, n-1).Draw(t, "ea"), rapid.IntRange(0, n-1).Draw(t, "eb"))
	}
	if len(c.Rules) == 0 {
		addRule(0, 1)
	}
	secondCRD := rapid.Bool().Draw(t, "secondCRD")
	if secondCRD {
		// the same hooks also serve a second CRD, with rules of its own over the same version names, declared before,
		// between and after the others
		for i, m := 0, rapid.IntRange(1, 3).Draw(t, "nother"); i < m; i++ {
			a := rapid.IntRange(0, n-1).Draw(t, "oa")
			b := rapid.IntRange(0, n-1).Draw(t, "ob")
			if a == b {
				b = (a + 1) % n
			}
			r := ConvRule{From: spell(vs[a], "osf"), To: spell(vs[b], "ost"), Hook: rapid.IntRange(0, 2).Draw(t, "ohook"), Outcome: "ok", Other: true}
			dup := false
			for _, x := range c.Rules {
				if x.Other && short(x.From) == short(r.From) && short(x.To) == short(r.To) {
					dup = true
				}
			}
			if dup {
				continue
			}
			pos := rapid.IntRange(0, len(c.Rules)).Draw(t, "opos")
			c.Rules = append(c.Rules[:pos], append([]ConvRule{r}, c.Rules[pos:]...)...)
		}
	}
	for i, m := 0, rapid.IntRange(1, 4).Draw(t, "nreq"); i < m; i++ {
		a := rapid.IntRange(0, n-1).Draw(t, "ra")
		b := rapid.IntRange(0, n-1).Draw(t, "rb")
		if rapid.Bool().Draw(t, "far") {
			a, b = 0, n-1
		}
		if a == b {
			b = (a + 1) % n
		}
		c.Requests = append(c.Requests, ConvRequest{From: vs[a], To: vs[b], Objects: rapid.IntRange(1, 3).Draw(t, "nobj"), Other: secondCRD && rapid.IntRange(0, 2).Draw(t, "rother") == 0})
	}
	return c
}

func runConv(c ConvCase) (ev.Info, error) {
	info := ev.Info{}
	env, err := opkit.New("c15", kit.NewCluster("default"))
	if err != nil {
		return info, fmt.Errorf("harness: %v", err)
	}
	defer env.Close()
	const crd = "crontabs.stable.example.com"
	const otherCRD = "pears.stable.example.com"
	perHook := map[int]*hcfg.D{}
	scripts := map[int][]vh.Rule{}
	ruleOfBinding := map[string]ConvRule{}
	for i, r := range c.Rules {
		d := perHook[r.Hook]
		if d == nil {
			d = &hcfg.D{}
			perHook[r.Hook] = d
		}
		bname := fmt.Sprintf("conv-%d", i)
		ruleOfBinding[bname] = r
		crdOf := crd
		if r.Other {
			crdOf = otherCRD
		}
		d.Conversion = append(d.Conversion, hcfg.Conv{Name: bname, CrdName: crdOf, Conversions: []hcfg.ConvRule{{From: r.From, To: r.To}}})
		var do vh.Behaviour
		switch r.Outcome {
		case "ok":
			do = vh.Behaviour{ConvertTo: full(r.To)}
		case "exit1":
			do = vh.Behaviour{Exit: 1, ConvertTo: full(r.To)}
		case "failed-message":
			do = vh.Behaviour{Conversion: &vh.File{Content: fmt.Sprintf(`{"failedMessage":"cannot convert 100%% of the objects in %s (%%d, %%s)"}`, bname)}}
		case "failed-message-and-objects":
			// a partial result: the hook reports a failure and still writes objects
			do = vh.Behaviour{ConvertTo: full(r.To), ConvertFailMsg: fmt.Sprintf("cannot convert 100%% of the objects in %s (%%d, %%s)", bname)}
		case "empty":
			do = vh.Behaviour{}
		case "drop":
			do = vh.Behaviour{ConvertTo: full(r.To), ConvertDrop: 1}
		case "extra":
			// one object more than the step received
			do = vh.Behaviour{ConvertTo: full(r.To), ConvertDrop: -1}
		}
		scripts[r.Hook] = append(scripts[r.Hook], vh.Rule{Match: fmt.Sprintf(`"binding": "%s"`, bname), Do: do})
	}
	hookName := func(h int) string { return fmt.Sprintf("hook%d", h) }
	for h, d := range perHook {
		if err := env.Tree.AddHook(hookName(h), 0o755, vh.Script{Config: d.JSON(), Rules: scripts[h]}); err != nil {
			return info, fmt.Errorf("harness: %v", err)
		}
	}
	if err := env.Assemble(); err != nil {
		return info, fmt.Errorf("harness: assemble: %v", err)
	}
	router := env.Op.ConversionWebhookManager.Handler.Router
	var declared []ConvRule
	declared = append(declared, c.Rules...)
	reach := func(from, to string, other bool) int {
		dist := map[string]int{from: 0}
		q := []string{from}
		for len(q) > 0 {
			v := q[0]
			q = q[1:]
			if v == to {
				return dist[v]
			}
			for _, r := range declared {
				if r.Other == other && short(r.From) == v {
					if _, ok := dist[short(r.To)]; !ok {
						dist[short(r.To)] = dist[v] + 1
						q = append(q, short(r.To))
					}
				}
			}
		}
		return 0
	}
	for ri, rq := range c.Requests {
		where := fmt.Sprintf("request %d (%s -> %s, %d objects)", ri, rq.From, rq.To, rq.Objects)
		crdPath, kindName := crd, "CronTab"
		if rq.Other {
			crdPath, kindName = otherCRD, "Pear"
			where += " for the second CRD"
			info.Labels = append(info.Labels, "request-for-second-crd")
		}
		var objs []any
		for k := 0; k < rq.Objects; k++ {
			objs = append(objs, map[string]any{"apiVersion": full(rq.From), "kind": kindName, "metadata": map[string]any{"name": fmt.Sprintf("ct-%d", k), "namespace": "default"}, "spec": map[string]any{"n": float64(k)}})
		}
		uid := fmt.Sprintf("conv-uid-%d", ri)
		body, _ := json.Marshal(map[string]any{"apiVersion": "apiextensions.k8s.io/v1", "kind": "ConversionReview", "request": map[string]any{"uid": uid, "desiredAPIVersion": full(rq.To), "objects": objs}})
		before, _ := env.Tree.ReadLog()
		req := httptest.NewRequest(http.MethodPost, "/"+crdPath, bytes.NewReader(body))
		req.Header.Set("Content-Type", "application/json")
		rec := httptest.NewRecorder()
		router.ServeHTTP(rec, req)
		after, _ := env.Tree.ReadLog()
		if rec.Code != http.StatusOK {
			return info, fmt.Errorf("%s: HTTP %d %s", where, rec.Code, rec.Body.String())
		}
		var review struct {
			Response *struct {
				UID              string            `json:"uid"`
				ConvertedObjects []json.RawMessage `json:"convertedObjects"`
				Result           struct {
					Status  string `json:"status"`
					Message string `json:"message"`
				} `json:"result"`
			} `json:"response"`
		}
		if err := json.Unmarshal(rec.Body.Bytes(), &review); err != nil || review.Response == nil {
			return info, fmt.Errorf("%s: answer is not a ConversionReview with a response: %s", where, rec.Body.String())
		}
		if review.Response.UID != uid {
			return info, fmt.Errorf("%s: answer carries uid %q, the request had %q", where, review.Response.UID, uid)
		}
		success := review.Response.Result.Status == "Success"
		// invocations, in order
		type inv struct {
			binding string
			rule    ConvRule
			ctx     map[string]any
		}
		var invs []inv
		for _, r := range after[len(before):] {
			if r.Phase != "start" {
				continue
			}
			var arr []map[string]any
			_ = json.Unmarshal(r.Context, &arr)
			if len(arr) != 1 {
				return info, fmt.Errorf("%s: conversion hook received %d contexts: %s", where, len(arr), string(r.Context))
			}
			b, _ := arr[0]["binding"].(string)
			rule, ok := ruleOfBinding[b]
			if !ok {
				return info, fmt.Errorf("%s: hook invoked with unknown binding %q", where, b)
			}
			if rule.Other != rq.Other {
				return info, fmt.Errorf("%s: binding %s was invoked, its rule %s -> %s is declared for the other CRD", where, b, rule.From, rule.To)
			}
			if r.Hook != hookName(rule.Hook) {
				return info, fmt.Errorf("%s: binding %s belongs to %s but %s was executed", where, b, hookName(rule.Hook), r.Hook)
			}
			if arr[0]["type"] != "Conversion" || arr[0]["fromVersion"] != rule.From || arr[0]["toVersion"] != rule.To {
				return info, fmt.Errorf("%s: context of %s has type/fromVersion/toVersion %v/%v/%v, the declared rule is %s -> %s", where, b, arr[0]["type"], arr[0]["fromVersion"], arr[0]["toVersion"], rule.From, rule.To)
			}
			invs = append(invs, inv{b, rule, arr[0]})
		}
		want := reach(rq.From, rq.To, rq.Other)
		if want >= 2 {
			info.NonTrivial = true
		}
		if want == 0 {
			if success {
				return info, fmt.Errorf("%s: Success although no chain of declared rules leads from %s to %s", where, rq.From, rq.To)
			}
			if len(invs) > 0 {
				return info, fmt.Errorf("%s: hooks were invoked although no chain exists", where)
			}
			continue
		}
		if len(invs) == 0 {
			return info, fmt.Errorf("%s: a chain of %d declared rules exists but no hook was invoked; answer: %s", where, want, rec.Body.String())
		}
		// the invocations must form a chain from the source, each step receiving the previous output
		cur := rq.From
		count := rq.Objects
		failedAt := -1
		failMsg := ""
		for i, iv := range invs {
			if failedAt >= 0 {
				return info, fmt.Errorf("%s: step %d (%s) was run after step %d (%s) had failed", where, i, iv.binding, failedAt, invs[failedAt].binding)
			}
			if short(iv.rule.From) != cur {
				return info, fmt.Errorf("%s: step %d (%s: %s -> %s) does not start where the previous step ended (%s)", where, i, iv.binding, iv.rule.From, iv.rule.To, cur)
			}
			rv, _ := iv.ctx["review"].(map[string]any)
			rr, _ := rv["request"].(map[string]any)
			robjs, _ := rr["objects"].([]any)
			if len(robjs) != count {
				return info, fmt.Errorf("%s: step %d (%s) received %d objects, the previous output had %d", where, i, iv.binding, len(robjs), count)
			}
			for _, o := range robjs {
				if om, ok := o.(map[string]any); !ok || om["apiVersion"] != full(cur) {
					return info, fmt.Errorf("%s: step %d (%s) received an object that is not the previous step's output (apiVersion %v, expected %s)", where, i, iv.binding, o.(map[string]any)["apiVersion"], full(cur))
				}
			}
			switch iv.rule.Outcome {
			case "ok":
				cur = short(iv.rule.To)
			case "drop":
				cur = short(iv.rule.To)
				count--
				if count < 0 {
					count = 0
				}
			case "extra":
				cur = short(iv.rule.To)
				if count > 0 {
					count++
				}
			default:
				failedAt = i
				if iv.rule.Outcome == "failed-message" || iv.rule.Outcome == "failed-message-and-objects" {
					failMsg = fmt.Sprintf("cannot convert 100%% of the objects in %s (%%d, %%s)", iv.binding)
				}
			}
		}
		allOK := failedAt < 0 && cur == rq.To && count == rq.Objects
		if allOK {
			if !success {
				return info, fmt.Errorf("%s: every step succeeded but the answer is %s", where, rec.Body.String())
			}
			if len(review.Response.ConvertedObjects) != rq.Objects {
				return info, fmt.Errorf("%s: Success with %d objects, %d were requested", where, len(review.Response.ConvertedObjects), rq.Objects)
			}
			for _, raw := range review.Response.ConvertedObjects {
				var o map[string]any
				_ = json.Unmarshal(raw, &o)
				if o["apiVersion"] != full(rq.To) {
					return info, fmt.Errorf("%s: converted object has apiVersion %v, desired %s", where, o["apiVersion"], full(rq.To))
				}
			}
			continue
		}
		info.Labels = append(info.Labels, "failing-step")
		if success {
			return info, fmt.Errorf("%s: answer is Success with %d objects although not every step succeeded (failed step index %d, %d of %d objects left, chain ended at %s)", where, len(review.Response.ConvertedObjects), failedAt, count, rq.Objects, cur)
		}
		if failMsg != "" && !strings.Contains(review.Response.Result.Message, failMsg) {
			return info, fmt.Errorf("%s: the failing hook wrote failedMessage %q, the answer says %q", where, failMsg, review.Response.Result.Message)
		}
	}
	return info, nil
}

const ruleConv = "1-3 scripted hooks declaring kubernetesCustomResourceConversion rules over 2-5 versions (short and full spellings, chains plus extra edges; each rule its own binding; in half of the cases the same hooks also declare 1-3 rules for a second CRD over the same version names, placed anywhere among the other bindings, and a third of the requests are for that CRD: rules of one CRD never serve the other) assembled by the real operator; 1-4 ConversionReview requests with 1-3 objects through the real HTTP handler; per rule a scripted outcome (convert all objects / exit 1 / failedMessage / failedMessage together with converted objects / empty response / drop an object / write one object too many); oracle: hooks are invoked for a connected chain starting at the source, each receiving the previous output with the declared fromVersion/toVersion; Success with as many objects as requested and the desired apiVersion iff every step succeeded; otherwise Failed, with the hook's failedMessage when it wrote one, and no step after a failed one; no chain -> Failed without invocations; uid echoed. Non-trivial: a request whose shortest chain has >= 2 steps."

func TestConversionE2E(t *testing.T) {
	ev.Main(t, ev.Spec[ConvCase]{Property: "C15", Part: "e2e", Rule: ruleConv, Gen: genConv, Run: runConv, Journal: true})
}
