package c05

import (
	"fmt"
	"runtime"
	"strings"
	"sync"
	"testing"
	"time"

	"github.com/flant/shell-operator/pkg/task"
	"github.com/flant/shell-operator/pkg/task/queue"
	"pgregory.net/rapid"

	"verif/internal/ev"
	"verif/internal/qh"
)

// Two goroutines apply short operation sequences to one queue at the same time. Every list operation must be
// atomic: the final content and every returned value must be explained by SOME interleaving of the two
// sequences applied one operation at a time to a plain slice (brute force over all interleavings).

type ROp struct {
	K    string   `json:"k"` // addFirst addLast addAfter addBefore remove removeFirst removeLast filter getFirst length
	Ref  string   `json:"ref,omitempty"`
	ID   string   `json:"id,omitempty"`
	Keep []string `json:"keep,omitempty"`
}

type RCase struct {
	Initial []string `json:"initial"`
	A       []ROp    `json:"a"`
	B       []ROp    `json:"b"`
}

func genRacing(t *rapid.T) RCase {
	c := RCase{}
	n := rapid.IntRange(0, 5).Draw(t, "ninit")
	for i := 0; i < n; i++ {
		c.Initial = append(c.Initial, fmt.Sprintf("i%d", i))
	}
	fresh := 0
	genSeq := func(label string) []ROp {
		var out []ROp
		for i, m := 0, rapid.IntRange(1, 4).Draw(t, label+"n"); i < m; i++ {
			k := rapid.SampledFrom([]string{"addFirst", "addLast", "addLast", "addAfter", "addBefore", "remove", "removeFirst", "removeLast", "filter", "filter", "getFirst", "length"}).Draw(t, label+"k")
			op := ROp{K: k}
			switch k {
			case "addFirst", "addLast":
				fresh++
				op.ID = fmt.Sprintf("%s%d", label, fresh)
			case "addAfter", "addBefore":
				fresh++
				op.ID = fmt.Sprintf("%s%d", label, fresh)
				op.Ref = "absent"
				if len(c.Initial) > 0 {
					op.Ref = rapid.SampledFrom(c.Initial).Draw(t, label+"ref")
				}
			case "remove":
				if len(c.Initial) > 0 {
					op.ID = rapid.SampledFrom(c.Initial).Draw(t, label+"ref")
				} else {
					op.ID = "absent"
				}
			case "filter":
				// keep-set over the initial ids; tasks added meanwhile are kept
				for _, id := range c.Initial {
					if rapid.IntRange(0, 3).Draw(t, label+"keep") > 0 {
						op.Keep = append(op.Keep, id)
					}
				}
			}
			out = append(out, op)
		}
		return out
	}
	c.A = genSeq("a")
	c.B = genSeq("b")
	return c
}

func applyModel(list []string, op ROp) ([]string, string) {
	switch op.K {
	case "addFirst":
		return append([]string{op.ID}, list...), ""
	case "addLast":
		return append(append([]string{}, list...), op.ID), ""
	case "addAfter", "addBefore":
		for i, x := range list {
			if x == op.Ref {
				at := i
				if op.K == "addAfter" {
					at = i + 1
				}
				out := append([]string{}, list[:at]...)
				out = append(out, op.ID)
				return append(out, list[at:]...), ""
			}
		}
		// the addressed task is gone: see applyModelAll
		return list, ""
	case "remove":
		for i, x := range list {
			if x == op.ID {
				out := append(append([]string{}, list[:i]...), list[i+1:]...)
				return out, x
			}
		}
		return list, "<nil>"
	case "removeFirst":
		if len(list) == 0 {
			return list, "<nil>"
		}
		return append([]string{}, list[1:]...), list[0]
	case "removeLast":
		if len(list) == 0 {
			return list, "<nil>"
		}
		return append([]string{}, list[:len(list)-1]...), list[len(list)-1]
	case "filter":
		var out []string
		for _, x := range list {
			if keepID(op, x) {
				out = append(out, x)
			}
		}
		return out, ""
	case "getFirst":
		if len(list) == 0 {
			return list, "<nil>"
		}
		return list, list[0]
	case "length":
		return list, fmt.Sprint(len(list))
	}
	return list, ""
}

// applyModelAll lists every outcome the statement allows for one operation: an insertion relative to a task
// that is not in the queue may be dropped or appended.
func applyModelAll(list []string, op ROp) [][2]any {
	nl, r := applyModel(list, op)
	out := [][2]any{{nl, r}}
	if op.K == "addAfter" || op.K == "addBefore" {
		found := false
		for _, x := range list {
			found = found || x == op.Ref
		}
		if !found {
			out = append(out, [2]any{append(append([]string{}, list...), op.ID), ""})
		}
	}
	return out
}

func keepID(op ROp, id string) bool {
	if !strings.HasPrefix(id, "i") {
		return true // added during the run
	}
	for _, k := range op.Keep {
		if k == id {
			return true
		}
	}
	return false
}

func idOf(t task.Task) string {
	if t == nil {
		return "<nil>"
	}
	return t.GetId()
}

func applyReal(q *queue.TaskQueue, op ROp) string {
	switch op.K {
	case "addFirst":
		q.AddFirst(qh.NewTask(op.ID))
	case "addLast":
		q.AddLast(qh.NewTask(op.ID))
	case "addAfter":
		q.AddAfter(op.Ref, qh.NewTask(op.ID))
	case "addBefore":
		q.AddBefore(op.Ref, qh.NewTask(op.ID))
	case "remove":
		return idOf(q.Remove(op.ID))
	case "removeFirst":
		return idOf(q.RemoveFirst())
	case "removeLast":
		return idOf(q.RemoveLast())
	case "filter":
		q.Filter(func(t task.Task) bool {
			// caller code inside the operation takes its time: concurrent operations arrive meanwhile
			time.Sleep(30 * time.Microsecond)
			runtime.Gosched()
			return keepID(op, t.GetId())
		})
	case "getFirst":
		return idOf(q.GetFirst())
	case "length":
		return fmt.Sprint(q.Length())
	}
	return ""
}

func runRacing(c RCase) (ev.Info, error) {
	info := ev.Info{}
	q := queue.NewTasksQueue()
	for _, id := range c.Initial {
		q.AddLast(qh.NewTask(id))
	}
	retA, retB := make([]string, len(c.A)), make([]string, len(c.B))
	var wg sync.WaitGroup
	start := make(chan struct{})
	run := func(ops []ROp, ret []string) {
		defer wg.Done()
		<-start
		for i, op := range ops {
			ret[i] = applyReal(q, op)
		}
	}
	wg.Add(2)
	go run(c.A, retA)
	go run(c.B, retB)
	close(start)
	done := make(chan struct{})
	go func() { wg.Wait(); close(done) }()
	select {
	case <-done:
	case <-time.After(20 * time.Second):
		return info, fmt.Errorf("two goroutines operating on one queue did not finish within 20s (deadlock)")
	}
	final := ids(qh.Snapshot(q))
	// brute force: is there an interleaving of A and B that explains the final content and the returned values?
	var explain func(list []string, i, j int) bool
	explain = func(list []string, i, j int) bool {
		if i == len(c.A) && j == len(c.B) {
			return fmt.Sprint(list) == fmt.Sprint(final)
		}
		if i < len(c.A) {
			for _, o := range applyModelAll(list, c.A[i]) {
				if o[1].(string) == retA[i] && explain(o[0].([]string), i+1, j) {
					return true
				}
			}
		}
		if j < len(c.B) {
			for _, o := range applyModelAll(list, c.B[j]) {
				if o[1].(string) == retB[j] && explain(o[0].([]string), i, j+1) {
					return true
				}
			}
		}
		return false
	}
	hasFilter, hasMut := false, false
	for _, op := range c.A {
		hasFilter = hasFilter || op.K == "filter"
	}
	for _, op := range c.B {
		hasMut = hasMut || (op.K != "getFirst" && op.K != "length")
	}
	for _, op := range c.B {
		if op.K == "filter" {
			for _, o2 := range c.A {
				if o2.K != "getFirst" && o2.K != "length" {
					hasFilter, hasMut = true, true
				}
			}
		}
	}
	info.NonTrivial = hasFilter && hasMut
	if !explain(append([]string{}, c.Initial...), 0, 0) {
		return info, fmt.Errorf("no interleaving of the two operation sequences explains the outcome: initial %v, A %+v returned %v, B %+v returned %v, final content %v", c.Initial, c.A, retA, c.B, retB, final)
	}
	return info, nil
}

const ruleRacing = "two goroutines apply 1-4 operations each (addFirst/addLast/addAfter/addBefore/remove/removeFirst/removeLast/filter/getFirst/length, unique ids) to one TaskQueue at the same time (real threads, sampled; the filter predicate takes ~30us per task so that the other goroutine's operations arrive during it); oracle: the final content and every returned value are explained by some interleaving of the two sequences on a plain slice (all interleavings enumerated) - every list operation is atomic. Non-trivial: a filter in one sequence and a mutating operation in the other."

func TestRacing(t *testing.T) {
	ev.Main(t, ev.Spec[RCase]{Property: "C05", Part: "racing", Rule: ruleRacing, Gen: genRacing, Run: runRacing, Journal: true})
}
