package c05

import (
	"context"
	"fmt"
	"testing"

	"github.com/flant/shell-operator/pkg/task"
	"github.com/flant/shell-operator/pkg/task/queue"
	"pgregory.net/rapid"

	"verif/internal/ev"
	"verif/internal/qh"
)

// Op is one queue operation of a generated history.
type Op struct {
	K      string   `json:"k"`                // addFirst addLast addAfter addBefore remove removeFirst removeLast filter get getFirst getLast release
	ID     string   `json:"id,omitempty"`     // id of the new task
	Ref    string   `json:"ref,omitempty"`    // id addressed by the operation
	Keep   []string `json:"keep,omitempty"`   // filter keeps tasks whose id is listed
	Status string   `json:"status,omitempty"` // release: Success Keep Fail Repeat
	Head   []string `json:"head,omitempty"`
	After  []string `json:"after,omitempty"`
	Tail   []string `json:"tail,omitempty"`
	// Reuse: what the handler does with the slices it returned once the result was applied: "scribble" overwrites
	// and extends them (a reused buffer), "retain" keeps them and expects them to stay as they were
	Reuse string `json:"reuse,omitempty"`
}

type Case struct {
	Worker bool `json:"worker"` // false: pure list operations on a queue that is not started (duplicate ids allowed)
	Ops    []Op `json:"ops"`
}

var purePool = []string{"a", "b", "c", "d", "e"}

func genPure(t *rapid.T) Case {
	n := rapid.IntRange(1, 40).Draw(t, "n")
	c := Case{}
	id := rapid.SampledFrom(append([]string{"zz"}, purePool...))
	if rapid.IntRange(0, 4).Draw(t, "burst") == 0 {
		// a burst of tasks that is drained again: the list grows far beyond its usual size and shrinks back
		m := rapid.IntRange(30, 300).Draw(t, "burstN")
		for i := 0; i < m; i++ {
			c.Ops = append(c.Ops, Op{K: "addLast", ID: purePool[i%len(purePool)]})
		}
		left := rapid.IntRange(0, 40).Draw(t, "burstLeft")
		for i := 0; i < m-left; i++ {
			c.Ops = append(c.Ops, Op{K: rapid.SampledFrom([]string{"remove", "remove", "remove", "removeFirst", "removeLast"}).Draw(t, "drain"), Ref: purePool[(i*3)%len(purePool)]})
		}
	}
	for i := 0; i < n; i++ {
		k := rapid.SampledFrom([]string{"addFirst", "addLast", "addLast", "addAfter", "addAfter", "addBefore", "addBefore", "remove", "remove", "removeFirst", "removeLast", "filter", "get", "getFirst", "getLast"}).Draw(t, "k")
		op := Op{K: k}
		switch k {
		case "addFirst", "addLast":
			op.ID = rapid.SampledFrom(purePool).Draw(t, "id")
		case "addAfter", "addBefore":
			op.ID = rapid.SampledFrom(purePool).Draw(t, "id")
			op.Ref = id.Draw(t, "ref")
		case "remove", "get":
			op.Ref = id.Draw(t, "ref")
		case "filter":
			op.Keep = rapid.SliceOfDistinct(rapid.SampledFrom(purePool), func(s string) string { return s }).Draw(t, "keep")
		}
		c.Ops = append(c.Ops, op)
	}
	return c
}

func genWorker(t *rapid.T) Case {
	n := rapid.IntRange(1, 50).Draw(t, "n")
	c := Case{Worker: true}
	next := 0
	issued := []string{"zz"} // "zz" is never issued: always absent
	fresh := func() string {
		next++
		s := fmt.Sprintf("t%d", next)
		issued = append(issued, s)
		return s
	}
	ref := func(label string) string {
		// recent ids are more likely to be present
		if len(issued) > 1 && rapid.IntRange(0, 9).Draw(t, label+"recent") < 7 {
			lo := len(issued) - 5
			if lo < 0 {
				lo = 0
			}
			return issued[rapid.IntRange(lo, len(issued)-1).Draw(t, label)]
		}
		return issued[rapid.IntRange(0, len(issued)-1).Draw(t, label)]
	}
	freshN := func(label string, max int) []string {
		k := rapid.IntRange(0, max).Draw(t, label)
		var out []string
		for i := 0; i < k; i++ {
			out = append(out, fresh())
		}
		return out
	}
	if rapid.IntRange(0, 4).Draw(t, "burst") == 0 {
		// a burst of tasks that is worked off again
		m := rapid.IntRange(30, 300).Draw(t, "burstN")
		var burst []string
		for i := 0; i < m; i++ {
			id := fresh()
			burst = append(burst, id)
			c.Ops = append(c.Ops, Op{K: "addLast", ID: id})
		}
		left := rapid.IntRange(0, 40).Draw(t, "burstLeft")
		byRelease := rapid.Bool().Draw(t, "burstRelease")
		for i := 0; i < m-left; i++ {
			if byRelease {
				c.Ops = append(c.Ops, Op{K: "release", Status: "Success"})
			} else {
				ref := burst[i/2]
				if i%2 == 1 {
					ref = burst[m-1-i/2]
				}
				c.Ops = append(c.Ops, Op{K: "remove", Ref: ref})
			}
		}
	}
	for i := 0; i < n; i++ {
		k := rapid.SampledFrom([]string{"addFirst", "addLast", "addLast", "addLast", "addAfter", "addAfter", "addBefore", "addBefore", "remove", "remove", "removeFirst", "removeLast", "filter", "get", "release", "release", "release", "release", "release"}).Draw(t, "k")
		op := Op{K: k}
		switch k {
		case "addFirst", "addLast":
			op.ID = fresh()
		case "addAfter", "addBefore":
			op.Ref = ref("ref")
			op.ID = fresh()
		case "remove", "get":
			op.Ref = ref("ref")
		case "filter":
			// keep set: every issued id kept with probability ~3/4
			for _, s := range issued {
				if rapid.IntRange(0, 3).Draw(t, "keep") > 0 {
					op.Keep = append(op.Keep, s)
				}
			}
		case "release":
			op.Status = rapid.SampledFrom([]string{"Success", "Success", "Success", "Keep", "Fail", "Repeat"}).Draw(t, "status")
			op.Head = freshN("head", 3)
			op.After = freshN("after", 3)
			op.Tail = freshN("tail", 3)
			op.Reuse = rapid.SampledFrom([]string{"", "scribble", "retain"}).Draw(t, "reuse")
		}
		c.Ops = append(c.Ops, op)
	}
	return c
}

func ids(ts []task.Task) []string {
	out := []string{}
	for _, t := range ts {
		if t == nil {
			out = append(out, "<nil>")
		} else {
			out = append(out, t.GetId())
		}
	}
	return out
}

func indexOf(model []task.Task, id string) int {
	for i, t := range model {
		if t.GetId() == id {
			return i
		}
	}
	return -1
}

func insertAt(model []task.Task, i int, t task.Task) []task.Task {
	out := make([]task.Task, 0, len(model)+1)
	out = append(out, model[:i]...)
	out = append(out, t)
	out = append(out, model[i:]...)
	return out
}

func removeAt(model []task.Task, i int) []task.Task {
	out := make([]task.Task, 0, len(model))
	out = append(out, model[:i]...)
	out = append(out, model[i+1:]...)
	return out
}

// reconcile compares the queue with the model. Tasks in optional were inserted relative to
// an id that is absent: the property only fixes "no empty slot, length == number of tasks,
// everything else unchanged", so they may be dropped or present (each at most once, after
// every task of the model that precedes... anywhere): the observation is adopted.
func reconcile(q *queue.TaskQueue, model []task.Task, optional []task.Task) ([]task.Task, error) {
	obs := qh.Snapshot(q)
	for i, t := range obs {
		if t == nil {
			return nil, fmt.Errorf("empty slot at position %d: queue %v, expected %v", i, ids(obs), ids(model))
		}
	}
	if l := q.Length(); l != len(obs) {
		return nil, fmt.Errorf("Length()=%d but the queue iterates over %d tasks %v", l, len(obs), ids(obs))
	}
	opt := map[task.Task]int{}
	for _, t := range optional {
		opt[t] = 0
	}
	rest := make([]task.Task, 0, len(obs))
	for _, t := range obs {
		if _, ok := opt[t]; ok {
			opt[t]++
			if opt[t] > 1 {
				return nil, fmt.Errorf("task %s is in the queue twice: %v", t.GetId(), ids(obs))
			}
			continue
		}
		rest = append(rest, t)
	}
	if len(rest) != len(model) {
		return nil, fmt.Errorf("queue holds %v, an ordinary list would hold %v", ids(obs), ids(model))
	}
	for i := range rest {
		if rest[i] != model[i] {
			return nil, fmt.Errorf("queue holds %v, an ordinary list would hold %v (position %d differs)", ids(obs), ids(model), i)
		}
	}
	if q.IsEmpty() != (len(obs) == 0) {
		return nil, fmt.Errorf("IsEmpty()=%v with %d tasks", q.IsEmpty(), len(obs))
	}
	var first, last task.Task
	if len(obs) > 0 {
		first, last = obs[0], obs[len(obs)-1]
	}
	if got := q.GetFirst(); got != first {
		return nil, fmt.Errorf("GetFirst() does not return the first task of %v", ids(obs))
	}
	if got := q.GetLast(); got != last {
		return nil, fmt.Errorf("GetLast() does not return the last task of %v", ids(obs))
	}
	return obs, nil
}

func same(a, b task.Task) bool {
	// a nil *BaseTask inside the interface must not be confused with nil
	return a == b
}

func runCase(c Case) (ev.Info, error) {
	info := ev.Info{}
	ctx, cancel := context.WithCancel(context.Background())
	defer cancel()
	w := qh.NewWorker(ctx, "q")
	q := w.Q
	var model []task.Task
	if c.Worker {
		q.Start()
		defer func() {
			cancel()
			if w.InFlight != nil {
				_ = w.Release(queue.TaskResult{Status: queue.Keep}, false)
			}
		}()
	}
	mutatedDuringHandler := false
	type retainedSlice struct {
		live []task.Task
		copy []task.Task
		step int
	}
	var retained []retainedSlice
	checkRetained := func() error {
		for _, r := range retained {
			full := r.live[:len(r.copy)]
			for i := range r.copy {
				if full[i] != r.copy[i] {
					return fmt.Errorf("a slice the handler returned at step %d was modified by later queue operations: it now holds %v, the handler put %v there", r.step, ids(full), ids(r.copy))
				}
			}
		}
		return nil
	}
	absentOp := false
	mk := func(id string) task.Task { return qh.NewTask(id) }

	for step, op := range c.Ops {
		if err := checkRetained(); err != nil {
			return info, err
		}
		var optional []task.Task
		fail := func(format string, a ...any) (ev.Info, error) {
			return info, fmt.Errorf("step %d %s: %s", step, op.K, fmt.Sprintf(format, a...))
		}
		switch op.K {
		case "addFirst":
			t := mk(op.ID)
			q.AddFirst(t)
			model = insertAt(model, 0, t)
			mutatedDuringHandler = true
		case "addLast":
			t := mk(op.ID)
			q.AddLast(t)
			model = append(model, t)
			mutatedDuringHandler = true
		case "addAfter":
			t := mk(op.ID)
			q.AddAfter(op.Ref, t)
			if i := indexOf(model, op.Ref); i >= 0 {
				model = insertAt(model, i+1, t)
			} else {
				optional = append(optional, t)
				absentOp = true
			}
			mutatedDuringHandler = true
		case "addBefore":
			t := mk(op.ID)
			q.AddBefore(op.Ref, t)
			if i := indexOf(model, op.Ref); i >= 0 {
				model = insertAt(model, i, t)
			} else {
				optional = append(optional, t)
				absentOp = true
			}
			mutatedDuringHandler = true
		case "remove":
			got := q.Remove(op.Ref)
			i := indexOf(model, op.Ref)
			if i >= 0 {
				if !same(got, model[i]) {
					return fail("Remove(%s) did not return the first task with that id", op.Ref)
				}
				model = removeAt(model, i)
			} else {
				absentOp = true
				if got != nil {
					return fail("Remove(%s) returned task %s although the id is absent", op.Ref, got.GetId())
				}
			}
			mutatedDuringHandler = true
		case "removeFirst":
			got := q.RemoveFirst()
			if len(model) == 0 {
				if got != nil {
					return fail("RemoveFirst on empty queue returned a task")
				}
			} else {
				if !same(got, model[0]) {
					return fail("RemoveFirst returned %v, expected %s", got, model[0].GetId())
				}
				model = removeAt(model, 0)
			}
			mutatedDuringHandler = true
		case "removeLast":
			got := q.RemoveLast()
			if len(model) == 0 {
				if got != nil {
					return fail("RemoveLast on empty queue returned a task")
				}
			} else {
				if !same(got, model[len(model)-1]) {
					return fail("RemoveLast returned %v, expected %s", got, model[len(model)-1].GetId())
				}
				model = removeAt(model, len(model)-1)
			}
			mutatedDuringHandler = true
		case "filter":
			keep := map[string]bool{}
			for _, s := range op.Keep {
				keep[s] = true
			}
			q.Filter(func(t task.Task) bool { return keep[t.GetId()] })
			var nm []task.Task
			for _, t := range model {
				if keep[t.GetId()] {
					nm = append(nm, t)
				}
			}
			model = nm
			mutatedDuringHandler = true
		case "get":
			got := q.Get(op.Ref)
			i := indexOf(model, op.Ref)
			if i >= 0 && !same(got, model[i]) {
				return fail("Get(%s) did not return the first task with that id", op.Ref)
			}
			if i < 0 {
				absentOp = true
				if got != nil {
					return fail("Get(%s) returned a task although the id is absent", op.Ref)
				}
			}
		case "getFirst", "getLast":
			// checked by reconcile
		case "release":
			if !c.Worker || w.InFlight == nil {
				continue
			}
			t := w.InFlight
			res := queue.TaskResult{Status: queue.TaskStatus(op.Status)}
			// the handler's slices have spare capacity, as a reused buffer would
			head, after, tail := make([]task.Task, 0, len(op.Head)+3), make([]task.Task, 0, len(op.After)+3), make([]task.Task, 0, len(op.Tail)+3)
			for _, s := range op.Head {
				head = append(head, mk(s))
			}
			for _, s := range op.After {
				after = append(after, mk(s))
			}
			for _, s := range op.Tail {
				tail = append(tail, mk(s))
			}
			res.HeadTasks, res.AfterTasks, res.TailTasks = head, after, tail
			fc := t.GetFailureCount()
			switch res.Status {
			case queue.Success, queue.Keep:
				if i := indexOf(model, t.GetId()); i >= 0 {
					for k, a := range after {
						model = insertAt(model, i+1+k, a)
					}
					if res.Status == queue.Success {
						model = removeAt(model, i)
					}
				} else {
					optional = append(optional, after...)
					if len(after) > 0 {
						absentOp = true
					}
				}
				nm := append([]task.Task{}, head...)
				nm = append(nm, model...)
				nm = append(nm, tail...)
				model = nm
				if mutatedDuringHandler && len(head)+len(after)+len(tail) > 0 {
					info.NonTrivial = true
				}
			case queue.Fail:
				fc++
			}
			if err := w.Release(res, true); err != nil {
				return fail("%v", err)
			}
			if got := t.GetFailureCount(); got != fc {
				return fail("failure count of %s is %d after %s, expected %d", t.GetId(), got, op.Status, fc)
			}
			switch op.Reuse {
			case "scribble":
				// the handler reuses its buffers: the queue must not be affected
				for _, sl := range [][]task.Task{head, after, tail} {
					for i := range sl {
						sl[i] = mk("SCRIBBLED")
					}
					sl = append(sl, mk("SCRIBBLED"), mk("SCRIBBLED"))
					_ = sl
				}
			case "retain":
				for _, sl := range [][]task.Task{head, after, tail} {
					retained = append(retained, retainedSlice{sl, append([]task.Task{}, sl...), step})
				}
			}
			mutatedDuringHandler = false
		default:
			return fail("unknown op")
		}

		if c.Worker {
			// tasks inserted relative to an absent id may have been appended: adopt before
			// deciding what the worker must pick
			if w.InFlight == nil {
				// the worker may already be picking: content must be read after it parked
				var err error
				// content is stable only once the worker is parked in the handler or idle on an empty queue
				obs := qh.Snapshot(q)
				for i, t := range obs {
					if t == nil {
						return fail("empty slot at position %d: queue %v, expected %v", i, ids(obs), ids(model))
					}
				}
				if len(obs) > 0 {
					var picked task.Task
					picked, err = w.AwaitStart()
					if err != nil {
						return fail("%v", err)
					}
					m2, err := reconcile(q, model, optional)
					if err != nil {
						return fail("%v", err)
					}
					model = m2
					if len(model) == 0 || !same(picked, model[0]) {
						return fail("handler invoked with task %s but the head of the queue is %v", picked.GetId(), ids(model))
					}
					mutatedDuringHandler = false
					continue
				}
			}
		}
		m2, err := reconcile(q, model, optional)
		if err != nil {
			return fail("%v", err)
		}
		model = m2
	}
	if absentOp {
		info.NonTrivial = true
		info.Labels = append(info.Labels, "absent-id-op")
	}
	if c.Worker {
		info.Labels = append(info.Labels, "worker")
	} else {
		info.Labels = append(info.Labels, "purelist")
		// non-trivial for the pure part: a duplicate id was addressed
		seen := map[string]int{}
		for _, op := range c.Ops {
			if op.ID != "" {
				seen[op.ID]++
			}
		}
		for _, n := range seen {
			if n > 1 {
				info.NonTrivial = true
			}
		}
	}
	return info, nil
}

const rule = "histories of TaskQueue operations (addFirst/addLast/addAfter/addBefore/remove/removeFirst/removeLast/filter/get and handler results Success/Keep/Fail/Repeat with 0-3 head/after/tail tasks) compared with a slice model after every step; 1 history in 5 begins with a burst of 30-300 added tasks that is drained again down to 0-40 (by id, from the ends, or by Success results); part purelist: queue not started, ids from a pool of 5 so duplicates occur; part worker: real worker goroutine parked in a handshake handler, unique ids, operations issued while the handler is running; the slices a result carries have spare capacity and are afterwards either scribbled over by the handler (must not affect the queue) or retained (later queue operations must not modify them). Non-trivial: an id-addressed operation hit an absent id, or a release carried head/after/tail tasks after the queue was mutated during the handler (worker), or a duplicate id was in play (purelist). Distinct = distinct operation sequences."

func TestPureList(t *testing.T) {
	ev.Main(t, ev.Spec[Case]{Property: "C05", Part: "purelist", Rule: rule, Gen: genPure, Run: runCase})
}

func TestWorker(t *testing.T) {
	ev.Main(t, ev.Spec[Case]{Property: "C05", Part: "worker", Rule: rule, Gen: genWorker, Run: runCase, Journal: true})
}
