package c03

import (
	"testing"

	"pgregory.net/rapid"

	"verif/internal/ev"
	"verif/internal/qset"
)

const ruleQ = "a real TaskQueueSet with 1-4 named queues whose workers run a handshake handler (always either parked in the handler on a known task or idle on an empty queue); actions: inject batches of tasks through the real events handler (schedule channel -> tail tasks in the queue named by the task), release a handler with Success/Fail/Keep/Repeat and head/tail tasks, stall a queue for the rest of the case; after every action: queue contents equal the model, at most one handler invocation outstanding per queue, the task being executed is the model head and belongs to that queue, and every non-stalled non-empty queue makes progress. Non-trivial: >= 2 queues had pending work at the same time or a queue was stalled while another had work."

func TestQueueSet(t *testing.T) {
	ev.Main(t, ev.Spec[qset.Case]{Property: "C03", Part: "queue", Rule: ruleQ, Gen: func(t *rapid.T) qset.Case { return qset.Gen(t, false) }, Run: qset.Run, Journal: true})
}
