package c03

import (
	"fmt"
	"testing"

	"verif/internal/ev"
	"verif/internal/ksched"
)

// The order in which a binding's events are handed to the events handler (and from there appended to the binding's
// queue) is the order in which the informer received them - also for events buffered during the Synchronization and
// replayed at the unlock while live events keep arriving. Decided on the scheduler harness of C01: only the
// reordering verdict is used here, losses belong to C01.
func runOrder(c ksched.Case) (ev.Info, error) {
	res, err := ksched.Run(c)
	if err != nil {
		return res.Info, err
	}
	for _, v := range res.Violations {
		if v.Kind == ksched.KLost && v.Reordered {
			return res.Info, fmt.Errorf("events of one binding were handed over in another order than they were received: %s", v.Detail)
		}
	}
	return res.Info, nil
}

const ruleOrder = "the scheduler harness of C01 (a real monitor under a cooperative scheduler: Synchronization, unlock replay, live deliveries and readers interleaved at the yield points by generated picks); oracle used here: per object the Events handed over are never the required ones in another order. Non-trivial: a watch delivery happened while the Synchronization was between Snapshot and the end of the unlock."

func TestEventOrder(t *testing.T) {
	ev.Main(t, ev.Spec[ksched.Case]{Property: "C03", Part: "order", Rule: ruleOrder, Gen: ksched.Gen, Run: runOrder, RegressRepeat: 3})
}
