package c03

import (
	"bytes"
	"encoding/json"
	"fmt"
	"net/http"
	"net/http/httptest"
	"testing"
	"time"

	"pgregory.net/rapid"

	"verif/internal/ev"
	"verif/internal/hcfg"
	"verif/internal/kit"
	"verif/internal/opkit"
	"verif/internal/vh"
)

// Queues do not block each other - also when one hook has bindings in several queues: while an execution is
// parked in one queue, every other queue goes on executing, including executions of the very same hook.

type IHook struct {
	Queues []string `json:"queues"` // one schedule binding per listed queue
}

type ICase struct {
	Hooks  []IHook `json:"hooks"`
	ParkH  int     `json:"park_hook"`
	ParkQ  string  `json:"park_queue"`
	Rounds int     `json:"rounds"`
}

var iQueues = []string{"main", "q1", "q2"}

func crontabFor(h int, q string) string {
	qi := map[string]int{"main": 0, "q1": 1, "q2": 2}[q]
	return fmt.Sprintf("0 0 %d %d *", h+1, qi+1)
}

func genIndependent(t *rapid.T) ICase {
	c := ICase{Rounds: rapid.IntRange(1, 3).Draw(t, "rounds")}
	nh := rapid.IntRange(1, 3).Draw(t, "nh")
	for h := 0; h < nh; h++ {
		var qs []string
		for _, q := range iQueues {
			if rapid.IntRange(0, 2).Draw(t, "in"+q) > 0 {
				qs = append(qs, q)
			}
		}
		if len(qs) == 0 {
			qs = []string{"main"}
		}
		c.Hooks = append(c.Hooks, IHook{Queues: qs})
	}
	c.ParkH = rapid.IntRange(0, nh-1).Draw(t, "parkh")
	c.ParkQ = rapid.SampledFrom(c.Hooks[c.ParkH].Queues).Draw(t, "parkq")
	return c
}

func runIndependent(c ICase) (ev.Info, error) {
	info := ev.Info{}
	env, err := opkit.New("c03i", kit.NewCluster("default"))
	if err != nil {
		return info, fmt.Errorf("harness: %v", err)
	}
	defer env.Close()
	name := func(h int) string { return fmt.Sprintf("h%d", h) }
	for h, hk := range c.Hooks {
		d := hcfg.D{}
		for _, q := range hk.Queues {
			qq := q
			if q == "main" {
				qq = ""
			}
			d.Schedules = append(d.Schedules, hcfg.Sched{Name: "in-" + q, Crontab: crontabFor(h, q), Queue: qq})
		}
		// every hook also serves an admission webhook: such requests are executed outside the queues
		d.Validating = []hcfg.Adm{{Name: fmt.Sprintf("val-h%d.example.com", h), Rules: []hcfg.AdmRule{{Operations: []string{"CREATE"}, APIGroups: []string{""}, APIVersions: []string{"v1"}, Resources: []string{"pods"}}}}}
		var rules []vh.Rule
		if h == c.ParkH {
			rules = append(rules, vh.Rule{Match: fmt.Sprintf(`"binding": "in-%s"`, c.ParkQ), Times: 1, Do: vh.Behaviour{Gate: "g0"}})
		}
		kit.Must(env.Tree.AddHook(name(h), 0o755, vh.Script{Config: d.JSON(), Rules: rules}))
	}
	if err := env.Assemble(); err != nil {
		return info, fmt.Errorf("harness: assemble: %v", err)
	}
	env.Start()
	if !env.WaitIdle(5*time.Millisecond, 20*time.Second) {
		return info, fmt.Errorf("harness: operator did not become idle after start")
	}
	// park one execution
	env.Tick(crontabFor(c.ParkH, c.ParkQ))
	if _, ok := env.Tree.WaitLog(20*time.Second, func(rs []vh.Record) bool {
		for _, r := range rs {
			if r.Hook == name(c.ParkH) && r.Phase == "start" {
				return true
			}
		}
		return false
	}); !ok {
		return info, fmt.Errorf("harness: the execution to be parked did not start")
	}
	// more work for the parked hook piles up behind its running execution, then an admission request for that hook
	// is served: it runs at once, outside the queues, with nothing but its own context
	env.Tick(crontabFor(c.ParkH, c.ParkQ))
	env.Tick(crontabFor(c.ParkH, c.ParkQ))
	env.Tick("59 23 31 12 *")
	env.Tick("59 23 31 12 *")
	{
		body, _ := json.Marshal(map[string]any{"apiVersion": "admission.k8s.io/v1", "kind": "AdmissionReview", "request": map[string]any{
			"uid": "adm-uid", "kind": map[string]any{"group": "", "version": "v1", "kind": "Pod"}, "resource": map[string]any{"group": "", "version": "v1", "resource": "pods"},
			"operation": "CREATE", "namespace": "default", "name": "p", "object": map[string]any{"apiVersion": "v1", "kind": "Pod", "metadata": map[string]any{"name": "p", "namespace": "default"}}}})
		req := httptest.NewRequest(http.MethodPost, fmt.Sprintf("/hooks/val-h%d-example-com", c.ParkH), bytes.NewReader(body))
		req.Header.Set("Content-Type", "application/json")
		served := make(chan struct{})
		go func() {
			defer close(served)
			env.Op.AdmissionWebhookManager.Handler.Router.ServeHTTP(httptest.NewRecorder(), req)
		}()
		select {
		case <-served:
		case <-time.After(8 * time.Second):
			kit.Must(env.Tree.OpenGate("g0"))
			<-served
			return info, fmt.Errorf("an admission request for hook %s was not answered within 8s while an execution of that hook is running in queue %s", name(c.ParkH), c.ParkQ)
		}
		rs, _ := env.Tree.ReadLog()
		for _, r := range rs {
			if r.Phase != "start" || r.Hook != name(c.ParkH) {
				continue
			}
			var arr []map[string]any
			_ = json.Unmarshal(r.Context, &arr)
			if len(arr) > 0 && arr[0]["type"] == "Validating" && len(arr) != 1 {
				kit.Must(env.Tree.OpenGate("g0"))
				return info, fmt.Errorf("OBSERVED: the execution of hook %s for an admission request carries %d binding contexts: tasks waiting in queue %s were executed outside their queue", name(c.ParkH), len(arr), c.ParkQ)
			}
		}
	}
	// every binding of every other queue fires, several rounds
	expected := 0
	sameHookOtherQueue := false
	for r := 0; r < c.Rounds; r++ {
		for h, hk := range c.Hooks {
			for _, q := range hk.Queues {
				if q == c.ParkQ {
					continue
				}
				env.Tick(crontabFor(h, q))
				env.Tick("59 23 31 12 *")
				if r == 0 {
					expected++
				}
				if h == c.ParkH {
					sameHookOtherQueue = true
				}
			}
		}
	}
	info.NonTrivial = sameHookOtherQueue
	// at least one execution per (hook, other queue) must END while the parked one is still running
	recs, ok := env.Tree.WaitLog(8*time.Second, func(rs []vh.Record) bool {
		ended := map[string]bool{}
		for _, r := range rs {
			if r.Phase == "end" {
				var b string
				for _, r0 := range rs {
					if r0.Phase == "start" && r0.Hook == r.Hook && r0.Seq == r.Seq {
						b = firstBinding(r0)
					}
				}
				ended[r.Hook+"/"+b] = true
			}
		}
		n := 0
		for h, hk := range c.Hooks {
			for _, q := range hk.Queues {
				if q != c.ParkQ && ended[name(h)+"/in-"+q] {
					n++
				}
			}
		}
		return n == expected
	})
	parkedEnded := false
	for _, r := range recs {
		if r.Hook == name(c.ParkH) && r.Phase == "end" && firstBindingOf(recs, r) == "in-"+c.ParkQ {
			parkedEnded = true
		}
	}
	kit.Must(env.Tree.OpenGate("g0"))
	if parkedEnded {
		return info, fmt.Errorf("harness: the parked execution ended before its gate was opened")
	}
	if !ok {
		var missing []string
		ended := map[string]bool{}
		for _, r := range recs {
			if r.Phase == "end" {
				ended[r.Hook+"/"+firstBindingOf(recs, r)] = true
			}
		}
		for h, hk := range c.Hooks {
			for _, q := range hk.Queues {
				if q != c.ParkQ && !ended[name(h)+"/in-"+q] {
					missing = append(missing, name(h)+" in queue "+q)
				}
			}
		}
		return info, fmt.Errorf("while an execution of hook %s is running in queue %s, these executions of other queues did not complete within 8s: %v", name(c.ParkH), c.ParkQ, missing)
	}
	if !env.WaitIdle(10*time.Millisecond, 30*time.Second) {
		return info, fmt.Errorf("harness: operator did not become idle at the end")
	}
	return info, nil
}

func firstBinding(r vh.Record) string {
	var arr []map[string]any
	if err := json.Unmarshal(r.Context, &arr); err != nil || len(arr) == 0 {
		return ""
	}
	b, _ := arr[0]["binding"].(string)
	return b
}

func firstBindingOf(rs []vh.Record, end vh.Record) string {
	for _, r := range rs {
		if r.Phase == "start" && r.Hook == end.Hook && r.Seq == end.Seq {
			return firstBinding(r)
		}
	}
	return ""
}

const ruleIndependent = "the real operator with 1-3 hooks, each with one schedule binding in each of a generated subset of the queues main/q1/q2; every hook also declares an admission webhook; one execution (hook, queue) is parked on a gate, two more ticks for it queue up behind it and an admission request for that hook is served (at once, with its own context only), then every binding of every other queue fires 1-3 times; oracle: for every (hook, other queue) an execution ends within 8s while the parked one is still running - also for the hook whose execution is parked. Non-trivial: the parked hook has a binding in another queue."

func TestQueuesIndependent(t *testing.T) {
	ev.Main(t, ev.Spec[ICase]{Property: "C03", Part: "independent", Rule: ruleIndependent, Gen: genIndependent, Run: runIndependent, Journal: true})
}
