package c03

import (
	"fmt"
	"sort"
	"testing"

	"verif/internal/e2e"
	"verif/internal/ev"
)

// Through the whole operator: executions that belong to one queue never overlap in time. The hook processes
// stamp their own start and end, so an overlap is an observed fact.

func queueOfExec(h *e2e.HookSpec, ex e2e.Exec) (string, bool) {
	q := ""
	for i, ctx := range ex.Contexts {
		b, _ := ctx["binding"].(string)
		typ, _ := ctx["type"].(string)
		var qi string
		switch {
		case h.V0:
			qi = "main"
		case b == "onStartup" && typ == "", typ == "Synchronization":
			qi = "main"
		case typ == "Schedule":
			sb := h.SchedBinding(b)
			if sb == nil {
				return "", false
			}
			qi = sb.Queue
		case typ == "Event":
			kb := h.KubeBinding(b)
			if kb == nil {
				return "", false
			}
			qi = kb.Queue
		default:
			// Group contexts do not say whether they stand for a Synchronization (main) or an event (own queue)
			return "", false
		}
		if qi == "" {
			qi = "main"
		}
		if i > 0 && qi != q {
			return "", false
		}
		q = qi
	}
	return q, q != ""
}

func runE2E(c e2e.Case) (ev.Info, error) {
	info := ev.Info{}
	tr, err := e2e.Run(c)
	if err != nil {
		return info, err
	}
	tr = tr.FirstRun()
	type iv struct {
		hook       string
		seq        int
		start, end int64
	}
	perQueue := map[string][]iv{}
	for _, ex := range tr.Execs {
		h := c.Hook(ex.Hook)
		if h == nil || ex.End == 0 {
			continue
		}
		q, ok := queueOfExec(h, ex)
		if !ok {
			continue
		}
		perQueue[q] = append(perQueue[q], iv{ex.Hook, ex.Seq, ex.Start, ex.End})
	}
	hooksIn := map[string]map[string]bool{}
	for q, l := range perQueue {
		sort.Slice(l, func(i, j int) bool { return l[i].start < l[j].start })
		hooksIn[q] = map[string]bool{}
		for i := range l {
			hooksIn[q][l[i].hook] = true
			if i > 0 && l[i].start < l[i-1].end {
				return info, fmt.Errorf("OBSERVED: queue %s: execution %d of hook %s started %dus before execution %d of hook %s ended: two tasks of one queue ran at the same time", q, l[i].seq, l[i].hook, (l[i-1].end-l[i].start)/1000, l[i-1].seq, l[i-1].hook)
			}
		}
	}
	for _, hs := range hooksIn {
		if len(hs) > 1 {
			info.NonTrivial = true
		}
	}
	if tr.HeldSyncs > 0 {
		info.Labels = append(info.Labels, "sync-held-while-ticks-and-changes-arrive")
	}
	return info, nil
}

const ruleE2E = "generated scenarios through the full operator (see C09/C06: several hooks, bindings in main and named queues, Synchronization executions parked on a gate while every crontab fires and the cluster changes, injected ticks, bursts); every execution whose contexts determine its queue (onStartup and Synchronization: main; Schedule/Event: the binding's queue) is attributed to that queue; oracle: within a queue no execution starts before the previous one ended (timestamps taken by the hook processes themselves: an overlap is an observed fact). Non-trivial: a queue served executions of >= 2 hooks."

func TestQueuesE2E(t *testing.T) {
	ev.Main(t, ev.Spec[e2e.Case]{Property: "C03", Part: "e2e", Rule: ruleE2E, Gen: e2e.Gen, Run: runE2E, Journal: true})
}
