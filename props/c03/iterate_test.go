package c03

import (
	"context"
	"fmt"
	"sync/atomic"
	"testing"
	"time"

	"github.com/flant/shell-operator/pkg/task"
	"github.com/flant/shell-operator/pkg/task/queue"
	"pgregory.net/rapid"

	"verif/internal/ev"
	"verif/internal/qh"
)

// ReadersCase: readers of the queue set (metrics, debug endpoints use Iterate/GetByName) run while the
// events handler adds tasks under the set lock. Real threads: the schedule is sampled, not owned.
type ReadersCase struct {
	Queues  int `json:"queues"`
	Readers int `json:"readers"`
	Adds    int `json:"adds"`
}

func genReaders(t *rapid.T) ReadersCase {
	return ReadersCase{Queues: rapid.IntRange(1, 4).Draw(t, "queues"), Readers: rapid.IntRange(1, 4).Draw(t, "readers"), Adds: rapid.IntRange(200, 3000).Draw(t, "adds")}
}

func runReaders(c ReadersCase) (ev.Info, error) {
	info := ev.Info{NonTrivial: c.Readers >= 2 || c.Queues >= 2}
	ctx, cancel := context.WithCancel(context.Background())
	defer cancel()
	tqs := queue.NewTaskQueueSet()
	tqs.WithContext(ctx)
	names := []string{"main", "q1", "q2", "q3"}[:c.Queues]
	for _, n := range names {
		tqs.NewNamedQueue(n, func(task.Task) queue.TaskResult { return queue.TaskResult{Status: queue.Success} })
	}
	var progress atomic.Int64
	stop := make(chan struct{})
	for r := 0; r < c.Readers; r++ {
		go func() {
			for {
				select {
				case <-stop:
					return
				default:
				}
				tqs.Iterate(func(q *queue.TaskQueue) { _ = q.Length() })
				progress.Add(1)
			}
		}()
	}
	done := make(chan struct{})
	go func() {
		for i := 0; i < c.Adds; i++ {
			n := names[i%len(names)]
			tqs.DoWithLock(func(s *queue.TaskQueueSet) {
				s.Queues[n].AddLast(qh.NewTask(fmt.Sprintf("t%d", i)))
			})
			progress.Add(1)
		}
		close(done)
	}()
	last := int64(-1)
	for {
		select {
		case <-done:
			close(stop)
			total := 0
			for _, n := range names {
				total += tqs.GetByName(n).Length()
			}
			if total != c.Adds {
				return info, fmt.Errorf("%d tasks were added under the set lock, the queues hold %d", c.Adds, total)
			}
			return info, nil
		case <-time.After(3 * time.Second):
			if p := progress.Load(); p == last {
				return info, fmt.Errorf("queue set is deadlocked: no reader (Iterate) and no writer (DoWithLock, as used by the events handler) made progress for 3s with %d readers and %d queues", c.Readers, c.Queues)
			} else {
				last = p
			}
		}
	}
}

const ruleReaders = "real threads: 1-4 goroutines call TaskQueueSet.Iterate in a loop (as the metrics loop and the debug endpoints do) while another appends 200-3000 tasks through DoWithLock exactly as the events handler does; watchdog: if neither side makes progress for 3 s the set lock is deadlocked; at the end every added task is in its queue. Schedule is sampled, not owned. Non-trivial: >= 2 readers or >= 2 queues."

func TestReaders(t *testing.T) {
	ev.Main(t, ev.Spec[ReadersCase]{Property: "C03", Part: "readers", Rule: ruleReaders, Gen: genReaders, Run: runReaders})
}
