package c03

import (
	"context"
	"fmt"
	"sync/atomic"
	"testing"
	"time"

	"github.com/flant/shell-operator/pkg/task"
	"github.com/flant/shell-operator/pkg/task/queue"
	"pgregory.net/rapid"

	"verif/internal/ev"
	"verif/internal/qh"
)

// ReadersCase: readers of the queue set (metrics, debug endpoints use Iterate/GetByName) run while the
// events handler adds tasks under the set lock. Real threads: the schedule is sampled, not owned.
type ReadersCase struct {
	Workers bool `json:"workers"`
	Queues  int  `json:"queues"`
	Readers int  `json:"readers"`
	Adds    int  `json:"adds"`
}

func genReaders(t *rapid.T) ReadersCase {
	return ReadersCase{Workers: rapid.Bool().Draw(t, "workers"), Queues: rapid.IntRange(1, 4).Draw(t, "queues"), Readers: rapid.IntRange(1, 4).Draw(t, "readers"), Adds: rapid.IntRange(200, 3000).Draw(t, "adds")}
}

func runReaders(c ReadersCase) (ev.Info, error) {
	info := ev.Info{NonTrivial: c.Readers >= 2 || c.Queues >= 2}
	ctx, cancel := context.WithCancel(context.Background())
	defer cancel()
	tqs := queue.NewTaskQueueSet()
	tqs.WithContext(ctx)
	names := []string{"main", "q1", "q2", "q3"}[:c.Queues]
	var progress atomic.Int64
	var handled atomic.Int64
	for _, n := range names {
		tqs.NewNamedQueue(n, func(task.Task) queue.TaskResult {
			handled.Add(1)
			progress.Add(1)
			return queue.TaskResult{Status: queue.Success}
		})
		qh.FastTimings(tqs.GetByName(n))
	}
	if c.Workers {
		// workers run, as in the operator: every handled task makes the worker dump its queue
		tqs.Start()
	}
	stop := make(chan struct{})
	for r := 0; r < c.Readers; r++ {
		go func() {
			for {
				select {
				case <-stop:
					return
				default:
				}
				tqs.Iterate(func(q *queue.TaskQueue) { _ = q.Length() })
				progress.Add(1)
			}
		}()
	}
	done := make(chan struct{})
	go func() {
		for i := 0; i < c.Adds; i++ {
			n := names[i%len(names)]
			tqs.DoWithLock(func(s *queue.TaskQueueSet) {
				s.Queues[n].AddLast(qh.NewTask(fmt.Sprintf("t%d", i)))
			})
			progress.Add(1)
		}
		close(done)
	}()
	last := int64(-1)
	stall := time.Now()
	for {
		select {
		case <-done:
			if c.Workers && handled.Load() < int64(c.Adds) {
				// wait for the workers to drain the queues (watchdog below still applies)
				select {
				case <-time.After(time.Millisecond):
				}
				if p := progress.Load(); p != last {
					last = p
					stall = time.Now()
				} else if time.Since(stall) > 3*time.Second {
					return info, fmt.Errorf("queue workers stopped making progress: %d of %d tasks handled, nothing moved for 3s (a worker or the set lock is deadlocked)", handled.Load(), c.Adds)
				}
				continue
			}
			close(stop)
			if c.Workers {
				return info, nil
			}
			total := 0
			for _, n := range names {
				total += tqs.GetByName(n).Length()
			}
			if total != c.Adds {
				return info, fmt.Errorf("%d tasks were added under the set lock, the queues hold %d", c.Adds, total)
			}
			return info, nil
		case <-time.After(3 * time.Second):
			if p := progress.Load(); p == last {
				return info, fmt.Errorf("queue set is deadlocked: no reader (Iterate) and no writer (DoWithLock, as used by the events handler) made progress for 3s with %d readers and %d queues", c.Readers, c.Queues)
			} else {
				last = p
			}
		}
	}
}

const ruleReaders = "real threads: optionally the queue workers run (each handled task makes the worker dump its queue); 1-4 goroutines call TaskQueueSet.Iterate in a loop (as the metrics loop and the debug endpoints do) while another appends 200-3000 tasks through DoWithLock exactly as the events handler does; watchdog: if neither side makes progress for 3 s the set lock is deadlocked; at the end every added task is in its queue. Schedule is sampled, not owned. Non-trivial: >= 2 readers or >= 2 queues."

func TestReaders(t *testing.T) {
	ev.Main(t, ev.Spec[ReadersCase]{Property: "C03", Part: "readers", Rule: ruleReaders, Gen: genReaders, Run: runReaders})
}
