package c03

import (
	"encoding/json"
	"fmt"
	"testing"
	"time"

	"pgregory.net/rapid"

	"verif/internal/ev"
	"verif/internal/hcfg"
	"verif/internal/kit"
	"verif/internal/opkit"
	"verif/internal/vh"
)

// A stalled main queue does not hold up a named queue - also at start: the Synchronization tasks of a hook run
// one after another in main; when a later one is slow or keeps failing, the bindings whose own Synchronization has
// already succeeded deliver their Events to their own queues.

type SSCase struct {
	Queues []string `json:"queues"` // queue of each kubernetes binding of the hook, in order ("" = main)
	Stall  int      `json:"stall"`  // index of the binding whose Synchronization stalls
	How    string   `json:"how"`    // parked | failing
	Target int      `json:"target"` // a binding before Stall that has a named queue: it gets an Event
	Other  bool     `json:"other"`  // a second hook with a schedule binding in main exists (queued behind the stall)
}

func genSyncStall(t *rapid.T) SSCase {
	n := rapid.IntRange(2, 4).Draw(t, "n")
	c := SSCase{How: rapid.SampledFrom([]string{"parked", "failing"}).Draw(t, "how"), Other: rapid.Bool().Draw(t, "other")}
	for i := 0; i < n; i++ {
		c.Queues = append(c.Queues, rapid.SampledFrom([]string{"", "q1", "q2"}).Draw(t, "q"))
	}
	c.Stall = rapid.IntRange(1, n-1).Draw(t, "stall")
	c.Target = rapid.IntRange(0, c.Stall-1).Draw(t, "target")
	if c.Queues[c.Target] == "" {
		c.Queues[c.Target] = rapid.SampledFrom([]string{"q1", "q2"}).Draw(t, "tq")
	}
	return c
}

func runSyncStall(c SSCase) (ev.Info, error) {
	info := ev.Info{NonTrivial: true, Labels: []string{"stall:" + c.How}}
	fc := kit.NewCluster("default")
	env, err := opkit.New("c03s", fc)
	if err != nil {
		return info, fmt.Errorf("harness: %v", err)
	}
	defer func() {
		env.OpenAllGates()
		env.Close()
	}()
	d := hcfg.D{}
	for i, q := range c.Queues {
		d.Kube = append(d.Kube, hcfg.Kube{Name: fmt.Sprintf("k%d", i), ApiVersion: "v1", Kind: "ConfigMap", Queue: q,
			NameSel: &hcfg.NameSel{MatchNames: []string{fmt.Sprintf("o%d", i)}}})
	}
	do := vh.Behaviour{Gate: "g0"}
	if c.How == "failing" {
		do = vh.Behaviour{Exit: 1}
	}
	rules := []vh.Rule{{Match: fmt.Sprintf(`"binding": "k%d"`, c.Stall), Do: do}}
	kit.Must(env.Tree.AddHook("hook", 0o755, vh.Script{Config: d.JSON(), Rules: rules}))
	if c.Other {
		d2 := hcfg.D{Schedules: []hcfg.Sched{{Name: "s", Crontab: "0 0 1 1 *"}}}
		kit.Must(env.Tree.AddHook("other", 0o755, vh.Script{Config: d2.JSON()}))
	}
	if err := env.Assemble(); err != nil {
		return info, fmt.Errorf("harness: assemble: %v", err)
	}
	env.Start()
	started := func(binding, typ string) func(rs []vh.Record) bool {
		return func(rs []vh.Record) bool {
			for _, r := range rs {
				if r.Hook != "hook" || r.Phase != "start" {
					continue
				}
				var arr []map[string]any
				_ = json.Unmarshal(r.Context, &arr)
				// (the fake API server's watch does not filter by name: the object may also reach sibling bindings
				// of the same queue, the contexts are then combined into one execution)
				for _, a := range arr {
					if a["binding"] == binding && a["type"] == typ {
						return true
					}
				}
			}
			return false
		}
	}
	stallName := fmt.Sprintf("k%d", c.Stall)
	if _, ok := env.Tree.WaitLog(20*time.Second, started(stallName, "Synchronization")); !ok {
		return info, fmt.Errorf("harness: the Synchronization of binding %s did not start", stallName)
	}
	// every Synchronization before the stalled one has ended with success by now (main runs them in order)
	if c.Other {
		env.Tick("0 0 1 1 *")
	}
	target := fmt.Sprintf("k%d", c.Target)
	if err := kit.Create(fc, kit.Obj("default", fmt.Sprintf("o%d", c.Target), map[string]any{"data": map[string]any{"a": "1"}})); err != nil {
		return info, fmt.Errorf("harness: %v", err)
	}
	recs, ok := env.Tree.WaitLog(8*time.Second, started(target, "Event"))
	if c.How == "parked" {
		for _, r := range recs {
			if r.Hook == "hook" && r.Phase == "end" && firstBindingOf(recs, r) == stallName {
				return info, fmt.Errorf("harness: the parked Synchronization ended before its gate was opened")
			}
		}
	}
	if !ok {
		var seen []string
		for _, r := range recs {
			if r.Phase == "start" {
				var arr []map[string]any
				_ = json.Unmarshal(r.Context, &arr)
				d := r.Hook + ":"
				for _, a := range arr {
					d += fmt.Sprintf("%v/%v ", a["binding"], a["type"])
				}
				seen = append(seen, d)
			}
		}
		for _, q := range []string{"main", "q1", "q2"} {
			seen = append(seen, fmt.Sprintf("queue %s: %d tasks", q, len(env.QueueTasks(q))))
		}
		return info, fmt.Errorf("the Synchronization of binding %s (main queue) is %s; binding %s (queue %s) had its Synchronization before it, but the Event for a new object matching %s was not executed within 8s: the stalled main queue delays queue %s (executions seen: "+fmt.Sprint(seen)+")", stallName, c.How, target, c.Queues[c.Target], target, c.Queues[c.Target])
	}
	return info, nil
}

const ruleSyncStall = "the real operator with one hook that has 2-4 kubernetes bindings (each selecting one object name; generated queues main/q1/q2), optionally a second hook with a schedule task waiting in main; the Synchronization of a generated later binding is parked on a gate or fails on every attempt, so the main queue is stalled; an object matching an earlier binding that has a named queue is created; oracle: an execution with that binding's Event context starts within 8s while main is still stalled. Every case is non-trivial."

func TestSyncStall(t *testing.T) {
	ev.Main(t, ev.Spec[SSCase]{Property: "C03", Part: "syncstall", Rule: ruleSyncStall, Gen: genSyncStall, Run: runSyncStall, Journal: true})
}
