package c04

import (
	"bytes"
	"encoding/json"
	"fmt"
	"net/http"
	"net/http/httptest"
	"strings"
	"testing"
	"time"

	"github.com/flant/shell-operator/pkg/task/queue"
	backoff "github.com/flant/shell-operator/pkg/utils/exponential_backoff"
	"pgregory.net/rapid"

	"verif/internal/ev"
	"verif/internal/hcfg"
	"verif/internal/kit"
	"verif/internal/opkit"
	"verif/internal/vh"
)

// ---------- pure part: the back-off delay ----------

type DelayCase struct {
	InitialMs int `json:"initial_ms"`
	Retry     int `json:"retry"`
}

func genDelay(t *rapid.T) DelayCase {
	return DelayCase{InitialMs: rapid.IntRange(1, 60000).Draw(t, "initial"), Retry: rapid.IntRange(0, 1000000).Draw(t, "retry")}
}

func runDelay(c DelayCase) (ev.Info, error) {
	info := ev.Info{NonTrivial: c.Retry > 0}
	initial := time.Duration(c.InitialMs) * time.Millisecond
	d := backoff.CalculateDelay(initial, c.Retry)
	min := initial
	if backoff.MaxExponentialBackoffDelay < min {
		min = backoff.MaxExponentialBackoffDelay
	}
	if d < min.Truncate(100*time.Millisecond) && d < min {
		return info, fmt.Errorf("CalculateDelay(%s, %d) = %s is shorter than the initial delay", initial, c.Retry, d)
	}
	if d > backoff.MaxExponentialBackoffDelay && d > initial {
		return info, fmt.Errorf("CalculateDelay(%s, %d) = %s exceeds the maximum", initial, c.Retry, d)
	}
	return info, nil
}

func TestDelay(t *testing.T) {
	ev.Main(t, ev.Spec[DelayCase]{Property: "C04", Part: "delay", Rule: "CalculateDelay(initial, retry) for initial in 1ms..60s and retry in 0..10^6: never shorter than the initial delay (up to the documented 100ms truncation) and never above the maximum. Non-trivial: retry > 0.", Gen: genDelay, Run: runDelay})
}

// ---------- E2E part ----------

type Bind struct {
	Name  string `json:"name"`
	Allow bool   `json:"allow"`
	Group string `json:"group,omitempty"`
	Queue string `json:"queue"` // main q1
}

type FailRule struct {
	Binding string `json:"binding"`
	Times   int    `json:"times"`
	Kind    string `json:"kind"` // exit exit-2 exit-127 killed-by-signal bad-metrics bad-patch invalid-patch-op ...
}

type Case struct {
	Binds []Bind     `json:"binds"` // bindings of hook "h"
	Ticks []string   `json:"ticks"` // binding names in arrival order ("os"/"os1" belong to hook "o")
	Fails []FailRule `json:"fails"`
	// Late: while a queue sleeps after its first failed execution, a tick for hook "late" arrives in that queue
	Late bool `json:"late,omitempty"`
	// LateAdmission: instead of a tick, an AdmissionReview request for the hook whose execution just failed
	// arrives during the back-off (webhook requests are served outside the queues)
	LateAdmission bool `json:"late_admission,omitempty"`
}

func gen(t *rapid.T) Case {
	c := Case{}
	nb := rapid.IntRange(2, 4).Draw(t, "nb")
	for i := 0; i < nb; i++ {
		c.Binds = append(c.Binds, Bind{
			Name:  fmt.Sprintf("s%d", i),
			Allow: rapid.IntRange(0, 2).Draw(t, "allow") == 0,
			Group: rapid.SampledFrom([]string{"", "", "g1"}).Draw(t, "group"),
			Queue: rapid.SampledFrom([]string{"main", "main", "q1"}).Draw(t, "queue"),
		})
	}
	names := []string{"os", "os1"}
	for _, b := range c.Binds {
		names = append(names, b.Name, b.Name)
	}
	nt := rapid.IntRange(2, 10).Draw(t, "nt")
	for i := 0; i < nt; i++ {
		c.Ticks = append(c.Ticks, rapid.SampledFrom(names).Draw(t, "tick"))
	}
	nf := rapid.IntRange(1, 2).Draw(t, "nf")
	for i := 0; i < nf; i++ {
		c.Fails = append(c.Fails, FailRule{
			Binding: rapid.SampledFrom(c.Ticks).Draw(t, "fb"),
			Times:   rapid.SampledFrom([]int{1, 1, 1, 2, 3}).Draw(t, "times"),
			Kind:    rapid.SampledFrom([]string{"exit", "exit", "exit-2", "exit-127", "killed-by-signal", "bad-metrics", "bad-metrics-stray-brace", "bad-metrics-stray-bracket", "bad-patch", "bad-patch-stray-bracket", "invalid-patch-op", "patch-apply-error", "bad-admission-response", "bad-conversion-response"}).Draw(t, "kind"),
		})
	}
	c.Late = rapid.Bool().Draw(t, "late")
	if c.Late {
		c.LateAdmission = rapid.IntRange(0, 2).Draw(t, "lateAdmission") == 0
	}
	return c
}

type task struct {
	hook  string
	binds []string // binding names of the contexts (before compaction)
}

type exec struct {
	hook string
	ctx  []string // "binding" or "binding@group" after compaction
	fail bool
}

func crontabOf(name string) string {
	// one crontab per binding name: s0..s3, os, os1, bm, b1
	m := map[string]string{"s0": "0 0 1 1 *", "s1": "0 0 2 1 *", "s2": "0 0 3 1 *", "s3": "0 0 4 1 *", "os": "0 0 5 1 *", "os1": "0 0 6 1 *", "bm": "0 0 7 1 *", "b1": "0 0 8 1 *", "lm": "0 0 9 1 *", "l1": "0 0 10 1 *"}
	return m[name]
}

func failBehaviour(kind string) vh.Behaviour {
	switch kind {
	case "bad-metrics":
		return vh.Behaviour{Metrics: &vh.File{Content: `{"name":"m","set":`}}
	case "bad-metrics-stray-brace":
		// a complete operation followed by a closing brace too many
		return vh.Behaviour{Metrics: &vh.File{Content: `{"name":"c04_m","set":1}}`}}
	case "bad-metrics-stray-bracket":
		return vh.Behaviour{Metrics: &vh.File{Content: `{"name":"c04_m","set":1}` + "\n]\n" + `{"name":"c04_m2","set":2}`}}
	case "bad-patch-stray-bracket":
		return vh.Behaviour{Patch: &vh.File{Content: `{"operation":"CreateIfNotExists","object":{"apiVersion":"v1","kind":"ConfigMap","metadata":{"name":"c04-stray","namespace":"default"}}}` + "\n]\n"}}
	case "bad-patch":
		return vh.Behaviour{Patch: &vh.File{Content: `{"operation":"Create","object":`}}
	case "bad-admission-response":
		// a malformed output file fails the execution, whichever binding the hook runs for
		return vh.Behaviour{Admission: &vh.File{Content: `{"allowed":tr`}}
	case "bad-conversion-response":
		return vh.Behaviour{Conversion: &vh.File{Content: `{"convertedObjects":[`}}
	case "patch-apply-error":
		// a well-formed operation that cannot be applied: the object does not exist and ignoreMissingObject is not set
		return vh.Behaviour{Patch: &vh.File{Content: `{"operation":"MergePatch","apiVersion":"v1","kind":"ConfigMap","namespace":"default","name":"no-such-object","mergePatch":{"data":{"a":"b"}}}`}}
	case "invalid-patch-op":
		return vh.Behaviour{Patch: &vh.File{Content: `{"operation":"Explode","kind":"Pod","name":"x"}`}}
	}
	switch kind {
	case "exit-2":
		return vh.Behaviour{Exit: 2}
	case "exit-127":
		return vh.Behaviour{Exit: 127}
	case "killed-by-signal":
		// the hook process does not exit at all: it is killed (SIGKILL, as the OOM killer does)
		return vh.Behaviour{Signal: true}
	}
	return vh.Behaviour{Exit: 1}
}

// admissionRequest sends one AdmissionReview for the given webhook id through the operator's router.
func admissionRequest(env *opkit.Env, id string) {
	body, _ := json.Marshal(map[string]any{"apiVersion": "admission.k8s.io/v1", "kind": "AdmissionReview", "request": map[string]any{
		"uid": "late-uid", "kind": map[string]any{"group": "", "version": "v1", "kind": "Pod"}, "resource": map[string]any{"group": "", "version": "v1", "resource": "pods"},
		"operation": "CREATE", "namespace": "default", "name": "p", "object": map[string]any{"apiVersion": "v1", "kind": "Pod", "metadata": map[string]any{"name": "p", "namespace": "default"}}}})
	req := httptest.NewRequest(http.MethodPost, "/hooks/"+id, bytes.NewReader(body))
	req.Header.Set("Content-Type", "application/json")
	env.Op.AdmissionWebhookManager.Handler.Router.ServeHTTP(httptest.NewRecorder(), req)
}

func runCase(c Case) (ev.Info, error) {
	info := ev.Info{}
	env, err := opkit.New("c04", kit.NewCluster("default"))
	if err != nil {
		return info, fmt.Errorf("harness: %v", err)
	}
	defer env.Close()
	bind := map[string]Bind{"os": {Name: "os", Queue: "main"}, "os1": {Name: "os1", Queue: "q1"}}
	hookOf := map[string]string{"os": "o", "os1": "o"}
	dh := hcfg.D{}
	for _, b := range c.Binds {
		bind[b.Name] = b
		hookOf[b.Name] = "h"
		dh.Schedules = append(dh.Schedules, hcfg.Sched{Name: b.Name, Crontab: crontabOf(b.Name), AllowFailure: hcfg.B(b.Allow), Group: b.Group, Queue: b.Queue})
	}
	admRules := []hcfg.AdmRule{{Operations: []string{"CREATE"}, APIGroups: []string{""}, APIVersions: []string{"v1"}, Resources: []string{"pods"}}}
	dh.Validating = []hcfg.Adm{{Name: "val-h.example.com", Rules: admRules}}
	do := hcfg.D{Validating: []hcfg.Adm{{Name: "val-o.example.com", Rules: admRules}}, Schedules: []hcfg.Sched{{Name: "os", Crontab: crontabOf("os"), Queue: "main"}, {Name: "os1", Crontab: crontabOf("os1"), Queue: "q1"}}}
	dblk := hcfg.D{Schedules: []hcfg.Sched{{Name: "bm", Crontab: crontabOf("bm"), Queue: "main"}, {Name: "b1", Crontab: crontabOf("b1"), Queue: "q1"}}}
	// failure rules: first matching rule with budget applies
	var hRules, oRules []vh.Rule
	for _, f := range c.Fails {
		r := vh.Rule{Match: fmt.Sprintf(`"binding": "%s"`, f.Binding), Times: f.Times, Do: failBehaviour(f.Kind)}
		if hookOf[f.Binding] == "h" {
			hRules = append(hRules, r)
		} else if hookOf[f.Binding] == "o" {
			oRules = append(oRules, r)
		}
	}
	kit.Must(env.Tree.AddHook("h", 0o755, vh.Script{Config: dh.JSON(), Rules: hRules}))
	kit.Must(env.Tree.AddHook("o", 0o755, vh.Script{Config: do.JSON(), Rules: oRules}))
	dlate := hcfg.D{Schedules: []hcfg.Sched{{Name: "lm", Crontab: crontabOf("lm"), Queue: "main"}, {Name: "l1", Crontab: crontabOf("l1"), Queue: "q1"}}}
	bind["lm"], bind["l1"] = Bind{Name: "lm", Queue: "main"}, Bind{Name: "l1", Queue: "q1"}
	hookOf["lm"], hookOf["l1"] = "late", "late"
	kit.Must(env.Tree.AddHook("late", 0o755, vh.Script{Config: dlate.JSON()}))
	kit.Must(env.Tree.AddHook("blk", 0o755, vh.Script{Config: dblk.JSON(), Rules: []vh.Rule{{Do: vh.Behaviour{Gate: "g0"}}}}))
	if err := env.Assemble(); err != nil {
		return info, fmt.Errorf("harness: assemble: %v", err)
	}
	env.Start()
	if !env.WaitIdle(3*time.Millisecond, 20*time.Second) {
		return info, fmt.Errorf("harness: operator did not become idle after start")
	}
	// keep the real back-off function but cap its (random, second-scale) growth so that cases stay fast;
	// a delay below the initial one still passes through unchanged
	for _, qn := range []string{"main", "q1"} {
		q := env.Op.TaskQueues.GetByName(qn)
		if q == nil {
			continue
		}
		real := q.ExponentialBackoffFn
		q.ExponentialBackoffFn = func(n int) time.Duration {
			d := real(n)
			if d > 60*time.Millisecond {
				d = 60 * time.Millisecond
			}
			return d
		}
	}
	initial := queue.DefaultInitialDelayOnFailedTask
	// block both queues
	env.Tick(crontabOf("bm"))
	env.Tick(crontabOf("b1"))
	_, ok := env.Tree.WaitLog(20*time.Second, func(rs []vh.Record) bool {
		n := 0
		for _, r := range rs {
			if r.Hook == "blk" && r.Phase == "start" {
				n++
			}
		}
		return n == 2
	})
	if !ok {
		return info, fmt.Errorf("harness: blocker hooks did not start")
	}
	model := map[string][]task{}
	for _, tk := range c.Ticks {
		b, known := bind[tk]
		if !known {
			continue
		}
		env.Tick(crontabOf(tk))
		model[b.Queue] = append(model[b.Queue], task{hook: hookOf[tk], binds: []string{tk}})
	}
	env.Tick("59 23 31 12 *")
	env.Tick("59 23 31 12 *")
	// simulate what the property prescribes
	budget := map[int]int{}
	for i, f := range c.Fails {
		budget[i] = f.Times
	}
	expected := map[string][]exec{}
	discardRisk := false
	queuedBehind := false
	for _, qn := range []string{"main", "q1"} {
		q := append([]task{}, model[qn]...)
		for len(q) > 0 {
			head := q[0]
			n := 1
			binds := append([]string{}, head.binds...)
			for n < len(q) && q[n].hook == head.hook {
				binds = append(binds, q[n].binds...)
				n++
			}
			var ctx []string
			for i, bn := range binds {
				g := bind[bn].Group
				if g != "" && i+1 < len(binds) && bind[binds[i+1]].Group == g {
					continue
				}
				if g != "" {
					ctx = append(ctx, bn+"@"+g)
				} else {
					ctx = append(ctx, bn)
				}
			}
			// the combined task replaces the merged ones
			q = append([]task{{hook: head.hook, binds: binds}}, q[n:]...)
			// scripted outcome: matching is done on the context file, i.e. on the compacted contexts
			fails := false
			for i, f := range c.Fails {
				if hookOf[f.Binding] != head.hook || budget[i] <= 0 {
					continue
				}
				hit := false
				for _, x := range ctx {
					if strings.SplitN(x, "@", 2)[0] == f.Binding {
						hit = true
					}
				}
				if hit {
					budget[i]--
					fails = true
					break
				}
			}
			expected[qn] = append(expected[qn], exec{hook: head.hook, ctx: ctx, fail: fails})
			if !fails {
				q = q[1:]
				continue
			}
			if len(q) > 1 {
				queuedBehind = true
			}
			allAllow := true
			for _, bn := range binds {
				if !bind[bn].Allow {
					allAllow = false
				}
			}
			if allAllow {
				q = q[1:] // dropped, queue proceeds
				continue
			}
			if bind[binds[0]].Allow {
				discardRisk = true // head allows failure, a merged binding does not
			}
			// retried: same task stays at the head
		}
	}
	info.NonTrivial = queuedBehind
	if discardRisk {
		info.Labels = append(info.Labels, "mixed-allowFailure-combined")
	}
	// the late ticks: as soon as the end record of a failing execution shows up, a tick of hook "late" is
	// injected for the queue of that execution (once per queue); its task goes to the tail of the sleeping queue
	lateInjected := map[string]bool{}
	stopLate, lateDone := make(chan struct{}), make(chan struct{})
	go func() {
		defer close(lateDone)
		if !c.Late {
			return
		}
		for {
			select {
			case <-stopLate:
				return
			default:
			}
			rs, _ := env.Tree.ReadLog()
			failing := map[string]string{} // hook/seq of a scripted failure -> queue
			hookOfExec := map[string]string{}
			for _, r := range rs {
				if r.Phase == "start" && r.Rule >= 0 && (r.Hook == "h" || r.Hook == "o") {
					var arr []map[string]any
					_ = json.Unmarshal(r.Context, &arr)
					if len(arr) > 0 {
						bn, _ := arr[0]["binding"].(string)
						failing[fmt.Sprintf("%s/%d", r.Hook, r.Seq)] = bind[bn].Queue
						hookOfExec[fmt.Sprintf("%s/%d", r.Hook, r.Seq)] = r.Hook
					}
				}
			}
			for _, r := range rs {
				if r.Phase != "end" {
					continue
				}
				if qn, ok := failing[fmt.Sprintf("%s/%d", r.Hook, r.Seq)]; ok && !lateInjected[qn] {
					lateInjected[qn] = true
					if c.LateAdmission {
						admissionRequest(env, "val-"+hookOfExec[fmt.Sprintf("%s/%d", r.Hook, r.Seq)]+"-example-com")
						continue
					}
					env.Tick(crontabOf(map[string]string{"main": "lm", "q1": "l1"}[qn]))
				}
			}
			time.Sleep(500 * time.Microsecond)
		}
	}()
	kit.Must(env.Tree.OpenGate("g0"))
	idle := env.WaitIdle(5*time.Millisecond, 40*time.Second)
	close(stopLate)
	<-lateDone
	if !idle {
		return info, fmt.Errorf("queues did not drain within 40s after the blocker was released (a task is retried forever or stuck)")
	}
	if idle && len(lateInjected) > 0 {
		// the late tasks may still be on their way
		env.WaitIdle(5*time.Millisecond, 40*time.Second)
	}
	for qn := range lateInjected {
		if c.LateAdmission {
			info.Labels = append(info.Labels, "admission-request-during-back-off")
			continue
		}
		// the late task was appended to the tail of the queue: it runs after everything else of that queue
		expected[qn] = append(expected[qn], exec{hook: "late", ctx: []string{map[string]string{"main": "lm", "q1": "l1"}[qn]}})
		info.Labels = append(info.Labels, "task-queued-during-back-off")
	}
	recs, _ := env.Tree.ReadLog()
	type obs struct {
		exec
		start, end int64
		exit       int
	}
	observed := map[string][]obs{}
	ends := map[string]int64{}
	for _, r := range recs {
		if r.Phase == "end" {
			ends[fmt.Sprintf("%s/%d", r.Hook, r.Seq)] = r.T
		}
	}
	for _, r := range recs {
		if r.Phase != "start" || r.Hook == "blk" {
			continue
		}
		var arr []map[string]any
		_ = json.Unmarshal(r.Context, &arr)
		var ctx []string
		qn := ""
		if len(arr) > 0 && (arr[0]["type"] == "Validating" || strings.HasPrefix(fmt.Sprint(arr[0]["binding"]), "val-")) {
			if len(arr) != 1 {
				return info, fmt.Errorf("OBSERVED: the execution of hook %s for an admission request carries %d binding contexts, it must carry its own only: %s", r.Hook, len(arr), string(r.Context))
			}
			continue
		}
		for _, m := range arr {
			bn, _ := m["binding"].(string)
			if g, ok := m["groupName"].(string); ok && g != "" {
				ctx = append(ctx, bn+"@"+g)
			} else {
				ctx = append(ctx, bn)
			}
			qn = bind[bn].Queue
		}
		observed[qn] = append(observed[qn], obs{exec: exec{hook: r.Hook, ctx: ctx}, start: r.T, end: ends[fmt.Sprintf("%s/%d", r.Hook, r.Seq)], exit: r.Exit})
	}
	for _, qn := range []string{"main", "q1"} {
		var es, os []string
		for _, e := range expected[qn] {
			es = append(es, fmt.Sprintf("%s%v fail=%v", e.hook, e.ctx, e.fail))
		}
		for _, o := range observed[qn] {
			os = append(os, fmt.Sprintf("%s%v", o.hook, o.ctx))
		}
		var esNoFail []string
		for _, e := range expected[qn] {
			esNoFail = append(esNoFail, fmt.Sprintf("%s%v", e.hook, e.ctx))
		}
		if strings.Join(os, " | ") != strings.Join(esNoFail, " | ") {
			err := fmt.Errorf("queue %s: executions observed\n  %s\nexpected (failed runs retried until success unless every binding involved allows failure)\n  %s", qn, strings.Join(os, " | "), strings.Join(es, " | "))
			if discardRisk {
				// signature of the known defect: the divergence is a missing retry of a failed combined execution
				// whose head binding allows failure while a merged binding does not
				info.Known = "C04-combined-task-inherits-head-allowFailure"
				info.KnownDetail = err.Error()
				return info, nil
			}
			return info, err
		}
		// back-off: a retry never starts earlier than the initial delay after the failed run ended
		for i, e := range expected[qn] {
			if e.fail && i+1 < len(observed[qn]) && fmt.Sprint(expected[qn][i+1].ctx) == fmt.Sprint(e.ctx) && expected[qn][i+1].hook == e.hook {
				gap := time.Duration(observed[qn][i+1].start - observed[qn][i].end)
				if gap < initial {
					return info, fmt.Errorf("queue %s: failed execution %v was retried after %s, less than the initial delay %s", qn, e.ctx, gap, initial)
				}
			}
		}
	}
	return info, nil
}

const rule = "the real operator on a fake cluster; hook h with 2-4 schedule bindings (allowFailure, group, queue main/q1), hook o with one binding per queue, a blocker hook parked on a gate in both queues while 1-8 ticks are injected (so tasks pile up and get combined), 1-2 failure rules 'fail k times (k in 1..3) whenever binding X is in the contexts' by non-zero exit (1, 2, 127), a hook process killed by a signal, malformed metrics (truncated, or complete operations followed by a stray closing brace or bracket), malformed patch (truncated or with a stray bracket), invalid patch operation a well-formed patch that cannot be applied, or a malformed admission/conversion response file; after the gate opens the per-queue sequence of executions in the hook log must equal the sequence prescribed by the property (combine model + retry until success unless every involved binding allows failure, nothing else of the queue in between), and every retry starts >= the initial delay after the failed run ended; in half of the cases a tick of a further hook is injected into a queue as soon as its first failing execution ended (a task arriving during the back-off sleep), expected to run last, or an AdmissionReview request for the hook whose execution just failed is served (its execution must carry only its own context and the queue must go on as if nothing happened). Non-trivial: a failure occurred while >= 1 other task was queued behind it."

func TestRetry(t *testing.T) {
	ev.Main(t, ev.Spec[Case]{Property: "C04", Part: "retry", Rule: rule, Gen: gen, Run: runCase, Journal: true})
}
