package c14

import (
	"bytes"
	"encoding/base64"
	"encoding/json"
	"fmt"
	"net/http"
	"net/http/httptest"
	"regexp"
	"strings"
	"testing"

	"pgregory.net/rapid"

	"verif/internal/ev"
	"verif/internal/hcfg"
	"verif/internal/kit"
	"verif/internal/opkit"
	"verif/internal/vh"
)

type Binding struct {
	Name     string `json:"name"`
	Mutating bool   `json:"mutating"`
	// Group: the documented option that only adds snapshots of a group to the binding context
	Group string `json:"group,omitempty"`
}

type HookSpec struct {
	Name     string    `json:"name"`
	Bindings []Binding `json:"bindings"`
}

type Request struct {
	PathKind string `json:"path_kind"` // registered unknown-conf unknown-webhook extra-segment root look-alike
	Target   int    `json:"target"`    // index into the flattened binding list (for registered / extra-segment)
	Body     string `json:"body"`      // valid missing-request not-json
	Exit     int    `json:"exit"`
	Response string `json:"response"` // empty allow allow-rich deny empty-object truncated wrongtype whitespace
	CType    string `json:"ctype"`
	// Extra: another output of the execution that cannot be parsed or applied, so that the execution fails although
	// the hook exited 0 and wrote its response: "" none, bad-patch (unknown operation), unappliable-patch (merge patch
	// of an object that does not exist), bad-metrics (truncated), invalid-metrics (operation without action)
	Extra string `json:"extra,omitempty"`
}

type Case struct {
	Hooks    []HookSpec `json:"hooks"`
	Requests []Request  `json:"requests"`
}

var valNames = []string{"val-a.example.com", "v.b.example.com", "a.b.c", "policy.pods.example.com", "val-a.example.org"}
var mutNames = []string{"mutate.example.com", "Mutate Pods", "mut/slash", "UPPER.case.io", "mutate_pods", "mutate pods", "val-a.example.com"}

var reUpper = regexp.MustCompile(`([A-Z])`)
var reBad = regexp.MustCompile(`[^a-z0-9-/]`)
var reDash = regexp.MustCompile(`[-]+`)

// safeID re-implements the documented URL sanitising of binding names.
func safeID(s string) string {
	s = reUpper.ReplaceAllString(s, "-$1")
	s = strings.ToLower(s)
	s = reBad.ReplaceAllString(s, "-")
	return reDash.ReplaceAllString(s, "-")
}

func gen(t *rapid.T) Case {
	c := Case{}
	nh := rapid.IntRange(1, 3).Draw(t, "nh")
	total := 0
	for h := 0; h < nh; h++ {
		hs := HookSpec{Name: fmt.Sprintf("hook%d", h)}
		usedV := map[string]bool{}
		for i, n := 0, rapid.IntRange(0, 2).Draw(t, "nv"); i < n; i++ {
			name := rapid.SampledFrom(valNames).Draw(t, "vname")
			if usedV[name] {
				continue
			}
			usedV[name] = true
			hs.Bindings = append(hs.Bindings, Binding{Name: name, Group: rapid.SampledFrom([]string{"", "", "g1"}).Draw(t, "vgroup")})
		}
		for i, n := 0, rapid.IntRange(0, 2).Draw(t, "nm"); i < n; i++ {
			hs.Bindings = append(hs.Bindings, Binding{Name: rapid.SampledFrom(mutNames).Draw(t, "mname"), Mutating: true, Group: rapid.SampledFrom([]string{"", "", "g1"}).Draw(t, "mgroup")})
		}
		if len(hs.Bindings) == 0 {
			hs.Bindings = append(hs.Bindings, Binding{Name: valNames[h]})
		}
		total += len(hs.Bindings)
		c.Hooks = append(c.Hooks, hs)
	}
	nr := rapid.IntRange(1, 6).Draw(t, "nr")
	for i := 0; i < nr; i++ {
		r := Request{}
		r.PathKind = rapid.SampledFrom([]string{"registered", "registered", "registered", "registered", "unknown-conf", "unknown-webhook", "extra-segment", "root", "look-alike"}).Draw(t, "pk")
		r.Target = rapid.IntRange(0, total-1).Draw(t, "target")
		r.Body = rapid.SampledFrom([]string{"valid", "valid", "valid", "valid", "valid", "missing-request", "not-json"}).Draw(t, "body")
		r.Exit = rapid.SampledFrom([]int{0, 0, 0, 1, 2}).Draw(t, "exit")
		r.Response = rapid.SampledFrom([]string{"empty", "allow", "allow", "allow-rich", "allow-rich", "deny", "empty-object", "truncated", "wrongtype", "whitespace"}).Draw(t, "resp")
		r.CType = "application/json"
		r.Extra = rapid.SampledFrom([]string{"", "", "", "", "bad-patch", "unappliable-patch", "bad-metrics", "invalid-metrics"}).Draw(t, "extra")
		c.Requests = append(c.Requests, r)
	}
	return c
}

const patchText = `[{"op":"add","path":"/metadata/labels/x","value":"y"}]`

func responseFile(kind string) *vh.File {
	switch kind {
	case "empty":
		return nil
	case "allow":
		return &vh.File{Content: `{"allowed":true}`}
	case "allow-rich":
		return &vh.File{Content: fmt.Sprintf(`{"allowed":true,"message":"fine","warnings":["w1","w2"],"patch":"%s"}`, base64.StdEncoding.EncodeToString([]byte(patchText)))}
	case "deny":
		return &vh.File{Content: `{"allowed":false,"message":"not allowed by policy","warnings":["careful"]}`}
	case "empty-object":
		return &vh.File{Content: `{}`}
	case "truncated":
		return &vh.File{Content: `{"allowed":tr`}
	case "wrongtype":
		return &vh.File{Content: `["allowed", true]`}
	case "whitespace":
		return &vh.File{Content: " \n\t "}
	}
	return nil
}

type flat struct {
	hook string
	b    Binding
}

func runCase(c Case) (ev.Info, error) {
	info := ev.Info{}
	env, err := opkit.New("c14", kit.NewCluster("default"))
	if err != nil {
		return info, fmt.Errorf("harness: %v", err)
	}
	defer env.Close()
	var all []flat
	for hi, h := range c.Hooks {
		d := hcfg.D{}
		for _, b := range h.Bindings {
			// (timeoutSeconds tells the hooks' webhook configurations apart in the operator's registry)
			a := hcfg.Adm{Name: b.Name, Group: b.Group, Timeout: hcfg.I(5 + hi), Rules: []hcfg.AdmRule{{Operations: []string{"CREATE"}, APIGroups: []string{""}, APIVersions: []string{"v1"}, Resources: []string{"pods"}}}}
			if b.Mutating {
				d.Mutating = append(d.Mutating, a)
			} else {
				d.Validating = append(d.Validating, a)
			}
			all = append(all, flat{h.Name, b})
		}
		if err := env.Tree.AddHook(h.Name, 0o755, vh.Script{Config: d.JSON()}); err != nil {
			return info, fmt.Errorf("harness: %v", err)
		}
	}
	if len(all) == 0 {
		return info, nil
	}
	if err := env.Assemble(); err != nil {
		return info, fmt.Errorf("harness: assemble: %v", err)
	}
	router := env.Op.AdmissionWebhookManager.Handler.Router
	// which (hook, binding) registered each webhook id
	owners := map[string][]flat{}
	for _, f := range all {
		owners[safeID(f.b.Name)] = append(owners[safeID(f.b.Name)], f)
	}
	for i, r := range c.Requests {
		where := fmt.Sprintf("request %d (%+v)", i, r)
		tgt := all[r.Target%len(all)]
		id := safeID(tgt.b.Name)
		var path string
		registered := false
		switch r.PathKind {
		case "registered":
			path = "/hooks/" + id
			registered = true
		case "unknown-conf":
			path = "/other/" + id
		case "unknown-webhook":
			path = "/hooks/no-such-webhook"
		case "extra-segment":
			path = "/hooks/" + id + "/extra"
			_, registered = owners[id+"/extra"]
			id = id + "/extra"
		case "root":
			path = "/"
		case "look-alike":
			// the binding's name as written (dots, capitals, blanks, underscores), not the id the path was registered
			// under: registered only if it happens to be a registered id itself
			raw := strings.ReplaceAll(tgt.b.Name, " ", "%20")
			path = "/hooks/" + raw
			_, registered = owners[tgt.b.Name]
			id = tgt.b.Name
			if strings.ContainsAny(tgt.b.Name, " /") {
				// (blanks and slashes change the path structure: covered by the other kinds)
				path = "/hooks/" + safeID(tgt.b.Name)
				registered = true
				id = safeID(tgt.b.Name)
			}
		}
		beh := vh.Behaviour{Exit: r.Exit, Admission: responseFile(r.Response)}
		switch r.Extra {
		case "bad-patch":
			beh.Patch = &vh.File{Content: `{"operation":"Explode","kind":"Pod","name":"x"}`}
		case "unappliable-patch":
			beh.Patch = &vh.File{Content: `{"operation":"MergePatch","apiVersion":"v1","kind":"ConfigMap","namespace":"default","name":"no-such-object","mergePatch":{"data":{"a":"b"}}}`}
		case "bad-metrics":
			beh.Metrics = &vh.File{Content: `{"name":"c14_m","set":`}
		case "invalid-metrics":
			beh.Metrics = &vh.File{Content: `{"name":"c14_m","value":1}`}
		}
		if r.Extra != "" {
			info.Labels = append(info.Labels, "failing-output:"+r.Extra)
		}
		for _, h := range c.Hooks {
			if err := env.Tree.SetScript(h.Name, vh.Script{Rules: []vh.Rule{{Do: beh}}}); err != nil {
				return info, fmt.Errorf("harness: %v", err)
			}
		}
		uid := fmt.Sprintf("uid-%d", i)
		var body []byte
		switch r.Body {
		case "valid":
			body, _ = json.Marshal(map[string]any{"apiVersion": "admission.k8s.io/v1", "kind": "AdmissionReview", "request": map[string]any{
				"uid": uid, "kind": map[string]any{"group": "", "version": "v1", "kind": "Pod"}, "resource": map[string]any{"group": "", "version": "v1", "resource": "pods"},
				"operation": "CREATE", "namespace": "default", "name": "p", "object": map[string]any{"apiVersion": "v1", "kind": "Pod", "metadata": map[string]any{"name": "p", "namespace": "default"}}}})
		case "missing-request":
			body = []byte(`{"apiVersion":"admission.k8s.io/v1","kind":"AdmissionReview"}`)
		default:
			body = []byte(`this is not json`)
		}
		before, _ := env.Tree.ReadLog()
		req := httptest.NewRequest(http.MethodPost, path, bytes.NewReader(body))
		req.Header.Set("Content-Type", r.CType)
		rec := httptest.NewRecorder()
		router.ServeHTTP(rec, req)
		after, _ := env.Tree.ReadLog()
		var ran []vh.Record
		for _, x := range after[len(before):] {
			if x.Phase == "start" {
				ran = append(ran, x)
			}
		}
		shouldAllow := registered && r.Body == "valid" && r.Exit == 0 && r.Extra == "" && (r.Response == "allow" || r.Response == "allow-rich")
		if !shouldAllow {
			info.NonTrivial = true
		}
		// decode the answer
		allowed := false
		var review struct {
			Response *struct {
				UID       string   `json:"uid"`
				Allowed   bool     `json:"allowed"`
				Warnings  []string `json:"warnings"`
				Patch     []byte   `json:"patch"`
				PatchType *string  `json:"patchType"`
				Status    *struct {
					Message string `json:"message"`
					Code    int    `json:"code"`
				} `json:"status"`
			} `json:"response"`
		}
		if rec.Code == http.StatusOK {
			if err := json.Unmarshal(rec.Body.Bytes(), &review); err != nil || review.Response == nil {
				return info, fmt.Errorf("%s: HTTP 200 with a body that is not an AdmissionReview with a response: %q", where, rec.Body.String())
			}
			allowed = review.Response.Allowed
			if review.Response.UID != uid {
				return info, fmt.Errorf("%s: answer carries uid %q, the request had %q", where, review.Response.UID, uid)
			}
		} else if strings.Contains(rec.Body.String(), `"allowed":true`) {
			return info, fmt.Errorf("%s: HTTP %d with allowed=true in the body", where, rec.Code)
		}
		if allowed && !shouldAllow {
			return info, fmt.Errorf("%s: answered allowed=true although the request must be denied (registered=%v); answer: %s", where, registered, rec.Body.String())
		}
		if shouldAllow && !allowed {
			return info, fmt.Errorf("%s: the hook allowed the request but the answer is HTTP %d %s", where, rec.Code, rec.Body.String())
		}
		// who ran
		if r.Body != "valid" || !registered {
			if len(ran) > 0 {
				return info, fmt.Errorf("%s: hook %s was executed for a request that has no registered webhook or no valid body", where, ran[0].Hook)
			}
			continue
		}
		if len(ran) == 0 {
			return info, fmt.Errorf("%s: no hook was executed for a registered webhook path %s", where, path)
		}
		cands := owners[id]
		if len(cands) == 1 {
			if len(ran) != 1 {
				return info, fmt.Errorf("%s: %d hook executions for one request", where, len(ran))
			}
			var ctx []map[string]any
			_ = json.Unmarshal(ran[0].Context, &ctx)
			wantType := "Validating"
			if cands[0].b.Mutating {
				wantType = "Mutating"
			}
			if ran[0].Hook != cands[0].hook || len(ctx) != 1 || ctx[0]["binding"] != cands[0].b.Name || ctx[0]["type"] != wantType {
				return info, fmt.Errorf("%s: executed hook %s with context %s, expected hook %s binding %q type %s", where, ran[0].Hook, string(ran[0].Context), cands[0].hook, cands[0].b.Name, wantType)
			}
			if rv, ok := ctx[0]["review"].(map[string]any); !ok || rv["request"] == nil || rv["request"].(map[string]any)["uid"] != uid {
				return info, fmt.Errorf("%s: the hook did not receive the review request: %s", where, string(ran[0].Context))
			}
		} else {
			info.Labels = append(info.Labels, "colliding-webhook-ids")
			// several hooks declare this webhook id: the path belongs to the hook whose webhook configuration the
			// operator keeps under that id (that is what the API server is told about the path)
			sameKind := true
			for _, cd := range cands {
				if cd.b.Mutating != cands[0].b.Mutating {
					sameKind = false
				}
			}
			if sameKind {
				owner := -1
				if cands[0].b.Mutating {
					for _, res := range env.Op.AdmissionWebhookManager.MutatingResources {
						if w := res.Get(id); w != nil && w.TimeoutSeconds != nil {
							owner = int(*w.TimeoutSeconds) - 5
						}
					}
				} else {
					for _, res := range env.Op.AdmissionWebhookManager.ValidatingResources {
						if w := res.Get(id); w != nil && w.TimeoutSeconds != nil {
							owner = int(*w.TimeoutSeconds) - 5
						}
					}
				}
				if owner >= 0 && owner < len(c.Hooks) && ran[len(ran)-1].Hook != c.Hooks[owner].Name {
					return info, fmt.Errorf("%s: webhook id %s is declared by several hooks; the operator keeps the webhook configuration of hook %s for it, but the request was handed to hook %s", where, id, c.Hooks[owner].Name, ran[len(ran)-1].Hook)
				}
				info.Labels = append(info.Labels, "colliding-webhook-ids-same-kind")
				info.NonTrivial = true
			}
			for _, x := range ran {
				ok := false
				for _, cd := range cands {
					if cd.hook == x.Hook {
						ok = true
					}
				}
				if !ok {
					return info, fmt.Errorf("%s: hook %s ran but did not register webhook id %s", where, x.Hook, id)
				}
			}
			continue
		}
		// relay of the verdict
		if r.Exit == 0 && r.Extra == "" && rec.Code == http.StatusOK {
			switch r.Response {
			case "allow-rich":
				if fmt.Sprint(review.Response.Warnings) != "[w1 w2]" {
					return info, fmt.Errorf("%s: warnings %v, the hook wrote [w1 w2]", where, review.Response.Warnings)
				}
				if string(review.Response.Patch) != patchText {
					return info, fmt.Errorf("%s: patch %q, the hook wrote %q", where, review.Response.Patch, patchText)
				}
				if review.Response.PatchType == nil || *review.Response.PatchType != "JSONPatch" {
					return info, fmt.Errorf("%s: patch present without patchType JSONPatch", where)
				}
			case "allow":
				if review.Response.PatchType != nil || len(review.Response.Patch) > 0 {
					return info, fmt.Errorf("%s: patch/patchType present although the hook wrote none", where)
				}
			case "deny":
				if review.Response.Status == nil || review.Response.Status.Message != "not allowed by policy" {
					return info, fmt.Errorf("%s: denial does not carry the hook's message: %s", where, rec.Body.String())
				}
				if fmt.Sprint(review.Response.Warnings) != "[careful]" {
					return info, fmt.Errorf("%s: warnings %v, the hook wrote [careful]", where, review.Response.Warnings)
				}
			}
		}
	}
	return info, nil
}

const rule = "1-3 scripted hooks with generated kubernetesValidating/kubernetesMutating bindings (names with dots, capitals, spaces, slashes, underscores; collisions after URL sanitising and across hooks included; a third of the bindings with the group option) loaded by the real operator assembly; 1-6 AdmissionReview requests through the real HTTP router: path {registered, unknown configuration id, unknown webhook id, extra segment, root, the binding's name as written instead of its sanitised id} x body {valid, missing request, not JSON} x hook exit {0,1,2} x another output that makes the execution fail {none, unknown patch operation, patch that cannot be applied, truncated metrics, metric operation without action} x response file {empty, allowed, allowed+message+warnings+patch, denied, {}, truncated, wrong type, whitespace}; oracle: decision table for allowed=true, uid echo, verdict relay (warnings, patch, patchType, denial message), and the hook log shows the hook/binding/type that registered the path (for a webhook id declared by several hooks: the hook whose webhook configuration the operator keeps under that id, told apart by timeoutSeconds). Non-trivial: a request that must not be allowed, or a webhook id declared by several hooks."

func TestAdmission(t *testing.T) {
	ev.Main(t, ev.Spec[Case]{Property: "C14", Part: "admission", Rule: rule, Gen: gen, Run: runCase, Journal: true})
}
