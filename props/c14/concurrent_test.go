package c14

import (
	"bytes"
	"encoding/json"
	"fmt"
	"net/http"
	"net/http/httptest"
	"strings"
	"sync"
	"testing"
	"time"

	"pgregory.net/rapid"

	"verif/internal/ev"
	"verif/internal/hcfg"
	"verif/internal/kit"
	"verif/internal/opkit"
	"verif/internal/vh"
)

// Overlapping requests: admission requests are served in the HTTP goroutines, so several executions of one hook
// run at the same time. Every execution writes its response and then parks (PostGate); the harness lets them end
// in a generated order. Each request must get the verdict its own execution wrote.

type CReq struct {
	Binding  int    `json:"binding"` // 0 validating, 1 mutating
	Exit     int    `json:"exit"`
	Response string `json:"response"`
}

type CCase struct {
	Reqs    []CReq `json:"reqs"`
	Release []int  `json:"release"` // permutation of the request indexes: order in which executions may end
}

func genConcurrent(t *rapid.T) CCase {
	c := CCase{}
	n := rapid.IntRange(2, 4).Draw(t, "n")
	for i := 0; i < n; i++ {
		c.Reqs = append(c.Reqs, CReq{
			Binding:  rapid.IntRange(0, 1).Draw(t, "binding"),
			Exit:     rapid.SampledFrom([]int{0, 0, 0, 0, 1}).Draw(t, "exit"),
			Response: rapid.SampledFrom([]string{"allow", "allow-rich", "deny", "deny", "empty", "truncated"}).Draw(t, "resp"),
		})
	}
	c.Release = rapid.Permutation(func() []int {
		x := make([]int, n)
		for i := range x {
			x[i] = i
		}
		return x
	}()).Draw(t, "release")
	return c
}

func runConcurrent(c CCase) (ev.Info, error) {
	info := ev.Info{}
	env, err := opkit.New("c14c", kit.NewCluster("default"))
	if err != nil {
		return info, fmt.Errorf("harness: %v", err)
	}
	defer env.Close()
	rules := []hcfg.AdmRule{{Operations: []string{"CREATE"}, APIGroups: []string{""}, APIVersions: []string{"v1"}, Resources: []string{"pods"}}}
	d := hcfg.D{Validating: []hcfg.Adm{{Name: "val.example.com", Rules: rules}}, Mutating: []hcfg.Adm{{Name: "mut.example.com", Rules: rules}}}
	var vr []vh.Rule
	for i, r := range c.Reqs {
		vr = append(vr, vh.Rule{Match: fmt.Sprintf(`cuid-%d"`, i), Do: vh.Behaviour{Exit: r.Exit, Admission: responseFile(r.Response), PostGate: fmt.Sprintf("pg%d", i)}})
	}
	if err := env.Tree.AddHook("hook", 0o755, vh.Script{Config: d.JSON(), Rules: vr}); err != nil {
		return info, fmt.Errorf("harness: %v", err)
	}
	if err := env.Assemble(); err != nil {
		return info, fmt.Errorf("harness: assemble: %v", err)
	}
	router := env.Op.AdmissionWebhookManager.Handler.Router
	recs := make([]*httptest.ResponseRecorder, len(c.Reqs))
	done := make([]chan struct{}, len(c.Reqs))
	var wg sync.WaitGroup
	for i, r := range c.Reqs {
		i, r := i, r
		done[i] = make(chan struct{})
		body, _ := json.Marshal(map[string]any{"apiVersion": "admission.k8s.io/v1", "kind": "AdmissionReview", "request": map[string]any{
			"uid": fmt.Sprintf("cuid-%d", i), "kind": map[string]any{"group": "", "version": "v1", "kind": "Pod"}, "resource": map[string]any{"group": "", "version": "v1", "resource": "pods"},
			"operation": "CREATE", "namespace": "default", "name": "p", "object": map[string]any{"apiVersion": "v1", "kind": "Pod", "metadata": map[string]any{"name": "p", "namespace": "default"}}}})
		path := "/hooks/" + safeID([]string{"val.example.com", "mut.example.com"}[r.Binding])
		req := httptest.NewRequest(http.MethodPost, path, bytes.NewReader(body))
		req.Header.Set("Content-Type", "application/json")
		recs[i] = httptest.NewRecorder()
		wg.Add(1)
		go func() {
			defer wg.Done()
			defer close(done[i])
			router.ServeHTTP(recs[i], req)
		}()
	}
	release := func() {
		for i := range c.Reqs {
			_ = env.Tree.OpenGate(fmt.Sprintf("pg%d", i))
		}
		wg.Wait()
	}
	// all executions have written their response and are parked
	_, ok := env.Tree.WaitLog(20*time.Second, func(rs []vh.Record) bool {
		n := 0
		for _, r := range rs {
			if r.Phase == "written" {
				n++
			}
		}
		return n == len(c.Reqs)
	})
	if !ok {
		release()
		return info, fmt.Errorf("harness: not every request led to a parked hook execution within 20s")
	}
	for _, i := range c.Release {
		_ = env.Tree.OpenGate(fmt.Sprintf("pg%d", i))
		select {
		case <-done[i]:
		case <-time.After(20 * time.Second):
			release()
			return info, fmt.Errorf("request %d was not answered within 20s after its hook execution ended", i)
		}
	}
	wg.Wait()
	verdicts := map[string]bool{}
	for i, r := range c.Reqs {
		where := fmt.Sprintf("request %d (%+v; executions end in order %v)", i, r, c.Release)
		rec := recs[i]
		shouldAllow := r.Exit == 0 && (r.Response == "allow" || r.Response == "allow-rich")
		verdicts[fmt.Sprintf("%v/%s", shouldAllow, r.Response)] = true
		var review struct {
			Response *struct {
				UID      string   `json:"uid"`
				Allowed  bool     `json:"allowed"`
				Warnings []string `json:"warnings"`
				Patch    []byte   `json:"patch"`
				Status   *struct {
					Message string `json:"message"`
				} `json:"status"`
			} `json:"response"`
		}
		allowed := false
		if rec.Code == http.StatusOK {
			if err := json.Unmarshal(rec.Body.Bytes(), &review); err != nil || review.Response == nil {
				return info, fmt.Errorf("%s: HTTP 200 with a body that is not an AdmissionReview with a response: %q", where, rec.Body.String())
			}
			allowed = review.Response.Allowed
			if review.Response.UID != fmt.Sprintf("cuid-%d", i) {
				return info, fmt.Errorf("%s: answer carries uid %q", where, review.Response.UID)
			}
		} else if strings.Contains(rec.Body.String(), `"allowed":true`) {
			return info, fmt.Errorf("%s: HTTP %d with allowed=true in the body", where, rec.Code)
		}
		if allowed && !shouldAllow {
			return info, fmt.Errorf("%s: answered allowed=true although its own hook execution did not allow it; answer: %s", where, rec.Body.String())
		}
		if shouldAllow && !allowed {
			return info, fmt.Errorf("%s: its hook execution allowed the request but the answer is HTTP %d %s", where, rec.Code, rec.Body.String())
		}
		if r.Exit == 0 && rec.Code == http.StatusOK {
			switch r.Response {
			case "allow-rich":
				if fmt.Sprint(review.Response.Warnings) != "[w1 w2]" || string(review.Response.Patch) != patchText {
					return info, fmt.Errorf("%s: warnings %v patch %q, its hook execution wrote [w1 w2] and %q", where, review.Response.Warnings, review.Response.Patch, patchText)
				}
			case "allow":
				if len(review.Response.Patch) > 0 || len(review.Response.Warnings) > 0 {
					return info, fmt.Errorf("%s: patch/warnings present although its hook execution wrote none: %s", where, rec.Body.String())
				}
			case "deny":
				if review.Response.Status == nil || review.Response.Status.Message != "not allowed by policy" || fmt.Sprint(review.Response.Warnings) != "[careful]" {
					return info, fmt.Errorf("%s: the denial does not carry the message and warnings its hook execution wrote: %s", where, rec.Body.String())
				}
			}
		}
	}
	info.NonTrivial = len(verdicts) > 1
	return info, nil
}

const ruleConcurrent = "one hook with a validating and a mutating binding; 2-4 AdmissionReview requests (distinct uids) sent at the same time through the real HTTP router, each with its own scripted outcome (exit {0,1} x response {allowed, allowed+warnings+patch, denied+message, empty, truncated}); every hook execution writes its response file and then parks on a gate of its own, the harness lets the executions end one by one in a generated order (the order is owned by the harness: a request is answered before the next execution may end); oracle per request: the decision table, uid echo and the relay of exactly the verdict its own execution wrote. Non-trivial: the overlapping executions wrote different verdicts."

func TestConcurrent(t *testing.T) {
	ev.Main(t, ev.Spec[CCase]{Property: "C14", Part: "concurrent", Rule: ruleConcurrent, Gen: genConcurrent, Run: runConcurrent, Journal: true})
}
