package c09

import (
	"bytes"
	"encoding/json"
	"fmt"
	"net/http"
	"net/http/httptest"
	"sort"
	"testing"
	"time"

	"pgregory.net/rapid"

	"verif/internal/ev"
	"verif/internal/hcfg"
	"verif/internal/kit"
	"verif/internal/opkit"
	"verif/internal/vh"
)

// Binding contexts of kubernetesValidating, kubernetesMutating and kubernetesCustomResourceConversion bindings,
// with and without the documented `group` / `includeSnapshotsFrom` options.

type WKube struct {
	Name  string `json:"name"`
	Group string `json:"group,omitempty"`
}

type WBinding struct {
	Kind     string   `json:"kind"` // validating mutating conversion
	Name     string   `json:"name"`
	Group    string   `json:"group,omitempty"`
	Includes []string `json:"includes,omitempty"`
}

type WCase struct {
	Kube     []WKube    `json:"kube"`
	Objects  []string   `json:"objects"` // names of ConfigMaps in namespace default
	Bindings []WBinding `json:"bindings"`
	Requests []int      `json:"requests"` // indexes into Bindings
	// BeforeStart: the requests arrive before the operator's queues have started (the webhook servers are up
	// earlier than the monitors): every included snapshot is still an (empty) list
	BeforeStart bool `json:"before_start,omitempty"`
}

func genWebhooks(t *rapid.T) WCase {
	c := WCase{}
	nk := rapid.IntRange(0, 2).Draw(t, "nk")
	var knames []string
	for i := 0; i < nk; i++ {
		k := WKube{Name: fmt.Sprintf("k%d", i), Group: rapid.SampledFrom([]string{"", "g1", "g1"}).Draw(t, "kgroup")}
		c.Kube = append(c.Kube, k)
		knames = append(knames, k.Name)
	}
	for i, n := 0, rapid.IntRange(0, 3).Draw(t, "nobj"); i < n; i++ {
		c.Objects = append(c.Objects, fmt.Sprintf("cm%d", i))
	}
	nb := rapid.IntRange(1, 4).Draw(t, "nb")
	convUsed := false
	for i := 0; i < nb; i++ {
		kind := rapid.SampledFrom([]string{"validating", "validating", "mutating", "conversion"}).Draw(t, "kind")
		if kind == "conversion" {
			if convUsed {
				kind = "validating"
			}
			convUsed = true
		}
		b := WBinding{Kind: kind, Name: fmt.Sprintf("%s-%d.example.com", kind[:3], i), Group: rapid.SampledFrom([]string{"", "", "g1", "g2"}).Draw(t, "group")}
		for _, kn := range knames {
			if rapid.IntRange(0, 2).Draw(t, "inc") == 0 {
				b.Includes = append(b.Includes, kn)
			}
		}
		c.Bindings = append(c.Bindings, b)
	}
	c.BeforeStart = rapid.IntRange(0, 3).Draw(t, "beforeStart") == 0
	nr := rapid.IntRange(1, 4).Draw(t, "nr")
	for i := 0; i < nr; i++ {
		c.Requests = append(c.Requests, rapid.IntRange(0, nb-1).Draw(t, "target"))
	}
	return c
}

func runWebhooks(c WCase) (ev.Info, error) {
	info := ev.Info{}
	fc := kit.NewCluster("default")
	for _, n := range c.Objects {
		if err := kit.Create(fc, kit.Obj("default", n, map[string]any{"data": map[string]any{"v": n}})); err != nil {
			return info, fmt.Errorf("harness: %v", err)
		}
	}
	env, err := opkit.New("c09w", fc)
	if err != nil {
		return info, fmt.Errorf("harness: %v", err)
	}
	defer env.Close()
	const crd = "crontabs.stable.example.com"
	d := hcfg.D{}
	for _, k := range c.Kube {
		// snapshot-only bindings: the hook is executed for the webhook requests only
		d.Kube = append(d.Kube, hcfg.Kube{Name: k.Name, Kind: "ConfigMap", ApiVersion: "v1", Group: k.Group, OnSync: hcfg.B(false), Events: &[]string{}})
	}
	rules := []hcfg.AdmRule{{Operations: []string{"CREATE"}, APIGroups: []string{""}, APIVersions: []string{"v1"}, Resources: []string{"pods"}}}
	for _, b := range c.Bindings {
		switch b.Kind {
		case "validating":
			d.Validating = append(d.Validating, hcfg.Adm{Name: b.Name, Rules: rules, Group: b.Group, Includes: b.Includes})
		case "mutating":
			d.Mutating = append(d.Mutating, hcfg.Adm{Name: b.Name, Rules: rules, Group: b.Group, Includes: b.Includes})
		case "conversion":
			d.Conversion = append(d.Conversion, hcfg.Conv{Name: b.Name, CrdName: crd, Group: b.Group, Includes: b.Includes, Conversions: []hcfg.ConvRule{{From: "stable.example.com/v1alpha1", To: "stable.example.com/v1beta1"}, {From: "stable.example.com/v1beta1", To: "stable.example.com/v1"}}})
		}
	}
	script := vh.Script{Config: d.JSON(), Rules: []vh.Rule{
		{Match: `"toVersion": "stable.example.com/v1beta1"`, Do: vh.Behaviour{ConvertTo: "stable.example.com/v1beta1"}},
		{Match: `"type": "Conversion"`, Do: vh.Behaviour{ConvertTo: "stable.example.com/v1"}},
		{Do: vh.Behaviour{Admission: &vh.File{Content: `{"allowed":true}`}}},
	}}
	if err := env.Tree.AddHook("hook", 0o755, script); err != nil {
		return info, fmt.Errorf("harness: %v", err)
	}
	if err := env.Assemble(); err != nil {
		return info, fmt.Errorf("harness: assemble: %v\n%s", err, d.JSON())
	}
	wantObjs := append([]string{}, c.Objects...)
	sort.Strings(wantObjs)
	if c.BeforeStart {
		wantObjs = []string{}
		info.Labels = append(info.Labels, "requests-before-start")
	} else {
		env.Start()
		if !env.WaitIdle(5*time.Millisecond, 20*time.Second) {
			return info, fmt.Errorf("harness: operator did not become idle after start")
		}
	}
	for ri, bi := range c.Requests {
		b := c.Bindings[bi]
		where := fmt.Sprintf("request %d for %s binding %q (group %q, includeSnapshotsFrom %v)", ri, b.Kind, b.Name, b.Group, b.Includes)
		uid := fmt.Sprintf("w-uid-%d", ri)
		var body []byte
		var router http.Handler
		var path string
		if b.Kind == "conversion" {
			body, _ = json.Marshal(map[string]any{"apiVersion": "apiextensions.k8s.io/v1", "kind": "ConversionReview", "request": map[string]any{"uid": uid, "desiredAPIVersion": "stable.example.com/v1",
				"objects": []any{map[string]any{"apiVersion": "stable.example.com/v1alpha1", "kind": "CronTab", "metadata": map[string]any{"name": "ct", "namespace": "default"}}}}})
			router, path = env.Op.ConversionWebhookManager.Handler.Router, "/"+crd
		} else {
			body, _ = json.Marshal(map[string]any{"apiVersion": "admission.k8s.io/v1", "kind": "AdmissionReview", "request": map[string]any{
				"uid": uid, "kind": map[string]any{"group": "", "version": "v1", "kind": "Pod"}, "resource": map[string]any{"group": "", "version": "v1", "resource": "pods"},
				"operation": "CREATE", "namespace": "default", "name": "p", "object": map[string]any{"apiVersion": "v1", "kind": "Pod", "metadata": map[string]any{"name": "p", "namespace": "default"}}}})
			router, path = env.Op.AdmissionWebhookManager.Handler.Router, "/hooks/"+safeName(b.Name)
		}
		before, _ := env.Tree.ReadLog()
		req := httptest.NewRequest(http.MethodPost, path, bytes.NewReader(body))
		req.Header.Set("Content-Type", "application/json")
		rec := httptest.NewRecorder()
		router.ServeHTTP(rec, req)
		after, _ := env.Tree.ReadLog()
		var ran []vh.Record
		for _, x := range after[len(before):] {
			if x.Phase == "start" {
				ran = append(ran, x)
			}
		}
		// a conversion request is served by the two rules of the binding, one execution each
		wantRuns := 1
		if b.Kind == "conversion" {
			wantRuns = 2
		}
		if len(ran) != wantRuns {
			return info, fmt.Errorf("%s: %d hook executions, expected %d (HTTP %d %s)", where, len(ran), wantRuns, rec.Code, rec.Body.String())
		}
		if b.Kind == "conversion" {
			// the first step, checked here; the second one is checked below like every other execution
			var first []map[string]any
			if err := json.Unmarshal(ran[0].Context, &first); err != nil || len(first) != 1 {
				return info, fmt.Errorf("%s: the binding context file of the first conversion step is not a JSON array with one item: %s%s", where, string(ran[0].Context), ran[0].RawCtx)
			}
			if first[0]["fromVersion"] != "stable.example.com/v1alpha1" || first[0]["toVersion"] != "stable.example.com/v1beta1" || first[0]["binding"] != b.Name || first[0]["type"] != "Conversion" {
				return info, fmt.Errorf("%s: first conversion step got fromVersion/toVersion %v/%v (binding %v, type %v), its rule says stable.example.com/v1alpha1 -> stable.example.com/v1beta1", where, first[0]["fromVersion"], first[0]["toVersion"], first[0]["binding"], first[0]["type"])
			}
			ran = ran[1:]
		}
		var arr []map[string]any
		if err := json.Unmarshal(ran[0].Context, &arr); err != nil || len(arr) != 1 {
			return info, fmt.Errorf("%s: the binding context file is not a JSON array with one item: %s%s", where, string(ran[0].Context), ran[0].RawCtx)
		}
		item := arr[0]
		wantType := map[string]string{"validating": "Validating", "mutating": "Mutating", "conversion": "Conversion"}[b.Kind]
		if item["binding"] != b.Name || item["type"] != wantType {
			return info, fmt.Errorf("%s: item has binding %v type %v, documented: binding %q type %q; item: %s", where, item["binding"], item["type"], b.Name, wantType, kit.Canon(item))
		}
		review, _ := item["review"].(map[string]any)
		rq, _ := review["request"].(map[string]any)
		if rq == nil || rq["uid"] != uid {
			return info, fmt.Errorf("%s: the item does not carry the review of the request: %s", where, kit.Canon(item))
		}
		want := []string{"binding", "type", "review"}
		if b.Kind == "conversion" {
			if item["fromVersion"] != "stable.example.com/v1beta1" || item["toVersion"] != "stable.example.com/v1" {
				return info, fmt.Errorf("%s: second conversion step got fromVersion/toVersion %v/%v, its rule says stable.example.com/v1beta1 -> stable.example.com/v1", where, item["fromVersion"], item["toVersion"])
			}
			want = append(want, "fromVersion", "toVersion")
		}
		// snapshots: declared includes plus the kubernetes bindings of the group
		set := map[string]bool{}
		for _, n := range b.Includes {
			set[n] = true
		}
		for _, k := range c.Kube {
			if b.Group != "" && k.Group == b.Group {
				set[k.Name] = true
			}
		}
		if len(set) > 0 {
			want = append(want, "snapshots")
			info.NonTrivial = true
		}
		if !sameKeys(item, want...) {
			return info, fmt.Errorf("%s: item has keys %v, documented for this binding: %v", where, keysOf(item), want)
		}
		if len(set) > 0 {
			snaps, _ := item["snapshots"].(map[string]any)
			if len(snaps) != len(set) {
				return info, fmt.Errorf("%s: snapshots has keys %v, the effective include set is %v", where, keysOf(snaps), kit.SortedKeys(set))
			}
			for n := range set {
				l, ok := snaps[n].([]any)
				if !ok {
					return info, fmt.Errorf("%s: snapshots has keys %v, the effective include set is %v", where, keysOf(snaps), kit.SortedKeys(set))
				}
				var got []string
				for _, e := range l {
					m, _ := e.(map[string]any)
					o, _ := m["object"].(map[string]any)
					md, _ := o["metadata"].(map[string]any)
					got = append(got, fmt.Sprint(md["name"]))
				}
				sort.Strings(got)
				if fmt.Sprint(got) != fmt.Sprint(wantObjs) {
					return info, fmt.Errorf("%s: snapshot %s lists %v, the cluster has %v", where, n, got, wantObjs)
				}
			}
		}
		if b.Group != "" {
			info.Labels = append(info.Labels, "webhook-binding-with-group")
		}
	}
	return info, nil
}

func safeName(s string) string {
	out := []byte{}
	for i := 0; i < len(s); i++ {
		ch := s[i]
		switch {
		case ch >= 'a' && ch <= 'z', ch >= '0' && ch <= '9', ch == '-', ch == '/':
			out = append(out, ch)
		default:
			out = append(out, '-')
		}
	}
	return string(out)
}

const ruleWebhooks = "one scripted hook with 0-2 snapshot-only kubernetes bindings (group none/g1), 1-4 kubernetesValidating / kubernetesMutating / kubernetesCustomResourceConversion bindings with group in {none, g1, a group without members} and includeSnapshotsFrom subsets, 0-3 ConfigMaps; 1-4 AdmissionReview/ConversionReview requests through the real routers of the started operator (in a quarter of the cases before the operator is started: snapshots are empty lists then); the binding context file of every execution (from the hook process's log) must be an array with one item carrying exactly the documented keys for its type (binding, type Validating/Mutating/Conversion, review with the request's uid, fromVersion/toVersion of the rule that is being executed - the conversion binding declares two rules and a request needs both -, snapshots exactly when the effective include set is non-empty, with exactly those keys and the cluster's objects). Non-trivial: an item with snapshots."

func TestWebhookContexts(t *testing.T) {
	ev.Main(t, ev.Spec[WCase]{Property: "C09", Part: "webhooks", Rule: ruleWebhooks, Gen: genWebhooks, Run: runWebhooks, Journal: true})
}
