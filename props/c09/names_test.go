package c09

import (
	"encoding/json"
	"fmt"
	"sort"
	"strings"
	"testing"
	"time"

	"pgregory.net/rapid"

	"verif/internal/ev"
	"verif/internal/hcfg"
	"verif/internal/kit"
	"verif/internal/opkit"
	"verif/internal/vh"
)

// Binding names are unique per binding kind only. Bindings of different kinds that share a name must each get
// the snapshots of their own includeSnapshotsFrom/group - also when their contexts are combined into one array.

type NKube struct {
	Name     string   `json:"name"`
	Ns       string   `json:"ns"` // the namespace whose ConfigMaps the binding watches
	Includes []string `json:"includes,omitempty"`
}

type NSched struct {
	Name     string   `json:"name"`
	Includes []string `json:"includes,omitempty"`
}

type NTrigger struct {
	K    string `json:"k"`    // event tick
	Name string `json:"name"` // binding name
}

type NCase struct {
	Kube     []NKube    `json:"kube"`
	Sched    []NSched   `json:"sched"`
	Triggers []NTrigger `json:"triggers"`
}

var namePool = []string{"x", "y", "z"}

func subset(t *rapid.T, pool []string, label string) []string {
	var out []string
	for _, p := range pool {
		if rapid.Bool().Draw(t, label) {
			out = append(out, p)
		}
	}
	return out
}

func genNames(t *rapid.T) NCase {
	c := NCase{}
	kn := rapid.IntRange(1, 2).Draw(t, "nk")
	knames := namePool[:kn]
	for i, n := range knames {
		c.Kube = append(c.Kube, NKube{Name: n, Ns: []string{"default", "ns2"}[i], Includes: subset(t, knames, "kinc")})
	}
	sn := rapid.IntRange(1, 2).Draw(t, "ns")
	// schedule names start from the same pool: collisions with kubernetes binding names are the rule
	for i := 0; i < sn; i++ {
		c.Sched = append(c.Sched, NSched{Name: namePool[i], Includes: subset(t, knames, "sinc")})
	}
	for i, n := 0, rapid.IntRange(2, 6).Draw(t, "nt"); i < n; i++ {
		if rapid.Bool().Draw(t, "isTick") {
			c.Triggers = append(c.Triggers, NTrigger{K: "tick", Name: c.Sched[rapid.IntRange(0, sn-1).Draw(t, "ts")].Name})
		} else {
			c.Triggers = append(c.Triggers, NTrigger{K: "event", Name: c.Kube[rapid.IntRange(0, kn-1).Draw(t, "tk")].Name})
		}
	}
	return c
}

var nameCrontabs = []string{"0 0 1 1 *", "0 0 2 1 *"}

func runNames(c NCase) (ev.Info, error) {
	info := ev.Info{}
	fc := kit.NewCluster("default", "ns2")
	env, err := opkit.New("c09n", fc)
	if err != nil {
		return info, fmt.Errorf("harness: %v", err)
	}
	defer env.Close()
	d := hcfg.D{}
	kubeInc, schedInc := map[string][]string{}, map[string][]string{}
	nsOf := map[string]string{}
	for _, k := range c.Kube {
		d.Kube = append(d.Kube, hcfg.Kube{Name: k.Name, Kind: "ConfigMap", ApiVersion: "v1", Includes: k.Includes, OnSync: hcfg.B(false), Namespace: &hcfg.NsSel{NameSelector: &hcfg.NameSel{MatchNames: []string{k.Ns}}}})
		kubeInc[k.Name] = k.Includes
		nsOf[k.Name] = k.Ns
	}
	cronOf := map[string]string{}
	for i, s := range c.Sched {
		d.Schedules = append(d.Schedules, hcfg.Sched{Name: s.Name, Crontab: nameCrontabs[i], Includes: s.Includes})
		schedInc[s.Name] = s.Includes
		cronOf[s.Name] = nameCrontabs[i]
	}
	dblk := hcfg.D{Schedules: []hcfg.Sched{{Name: "blk", Crontab: "0 0 9 1 *"}}}
	kit.Must(env.Tree.AddHook("hook", 0o755, vh.Script{Config: d.JSON()}))
	kit.Must(env.Tree.AddHook("zblk", 0o755, vh.Script{Config: dblk.JSON(), Rules: []vh.Rule{{Do: vh.Behaviour{Gate: "g0"}}}}))
	if err := env.Assemble(); err != nil {
		return info, fmt.Errorf("harness: assemble: %v\n%s", err, d.JSON())
	}
	env.Start()
	if !env.WaitIdle(5*time.Millisecond, 20*time.Second) {
		return info, fmt.Errorf("harness: operator did not become idle after start")
	}
	// park the main queue so that the triggers pile up and get combined
	env.Tick("0 0 9 1 *")
	if _, ok := env.Tree.WaitLog(20*time.Second, func(rs []vh.Record) bool {
		for _, r := range rs {
			if r.Hook == "zblk" && r.Phase == "start" {
				return true
			}
		}
		return false
	}); !ok {
		return info, fmt.Errorf("harness: blocker did not start")
	}
	nObj := 0
	for _, tr := range c.Triggers {
		if tr.K == "tick" {
			env.Tick(cronOf[tr.Name])
			env.Tick("59 23 31 12 *")
			continue
		}
		nObj++
		before := len(env.QueueTasks("main"))
		if err := kit.Create(fc, kit.Obj(nsOf[tr.Name], fmt.Sprintf("o%d", nObj), map[string]any{"data": map[string]any{"v": "1"}})); err != nil {
			return info, fmt.Errorf("harness: %v", err)
		}
		// the event's task must be queued before the next trigger is issued
		for deadline := time.Now().Add(5 * time.Second); len(env.QueueTasks("main")) <= before && time.Now().Before(deadline); {
			time.Sleep(time.Millisecond)
		}
	}
	kit.Must(env.Tree.OpenGate("g0"))
	if !env.WaitIdle(10*time.Millisecond, 30*time.Second) {
		return info, fmt.Errorf("harness: operator did not become idle at the end")
	}
	recs, _ := env.Tree.ReadLog()
	sawCollision := false
	for _, r := range recs {
		if r.Phase != "start" || r.Hook != "hook" {
			continue
		}
		var arr []map[string]any
		if err := json.Unmarshal(r.Context, &arr); err != nil {
			return info, fmt.Errorf("OBSERVED: execution %d: binding context file is not a JSON array (as read by the hook process itself): %s", r.Seq, r.RawCtx)
		}
		kinds := map[string]map[string]bool{}
		for i, item := range arr {
			name, _ := item["binding"].(string)
			typ, _ := item["type"].(string)
			var inc []string
			switch typ {
			case "Schedule":
				inc = schedInc[name]
			case "Event", "Synchronization":
				inc = kubeInc[name]
			default:
				continue
			}
			if kinds[name] == nil {
				kinds[name] = map[string]bool{}
			}
			kinds[name][typ] = true
			want := append([]string{}, inc...)
			sort.Strings(want)
			var got []string
			if sm, ok := item["snapshots"].(map[string]any); ok {
				got = keysOf(sm)
			}
			if strings.Join(got, ",") != strings.Join(want, ",") {
				return info, fmt.Errorf("execution %d item %d (binding %q, type %s): snapshots keys %v, the binding's includeSnapshotsFrom is %v; whole array: %s", r.Seq, i, name, typ, got, want, string(r.Context))
			}
		}
		for _, ts := range kinds {
			if len(ts) > 1 {
				sawCollision = true
			}
		}
	}
	info.NonTrivial = sawCollision
	return info, nil
}

const ruleNames = "one hook with 1-2 kubernetes bindings (ConfigMaps of two namespaces) and 1-2 schedule bindings whose names come from the same pool (x, y: a schedule binding is usually called like a kubernetes binding), each with its own generated includeSnapshotsFrom; a blocker parks the main queue while 2-6 triggers (object created / tick) arrive in generated order, so that their contexts are combined into one array; every item must carry snapshots for exactly the includeSnapshotsFrom of the binding of ITS kind and name. Non-trivial: one array held a Schedule and an Event item of the same binding name."

func TestBindingNames(t *testing.T) {
	ev.Main(t, ev.Spec[NCase]{Property: "C09", Part: "names", Rule: ruleNames, Gen: genNames, Run: runNames, Journal: true})
}
