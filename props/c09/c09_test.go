package c09

import (
	"fmt"
	"sort"
	"strings"
	"testing"

	"verif/internal/e2e"
	"verif/internal/ev"
	"verif/internal/kit"
)

func keysOf(m map[string]any) []string {
	ks := []string{}
	for k := range m {
		ks = append(ks, k)
	}
	sort.Strings(ks)
	return ks
}

func sameKeys(m map[string]any, want ...string) bool {
	sort.Strings(want)
	return strings.Join(keysOf(m), ",") == strings.Join(want, ",")
}

type problem struct {
	msg      string
	nonObjJq bool // explained by the known jq defect (non-object result)
}

// checkItem verifies one {object?, filterResult?} item of a kubernetes binding.
// states: the states the object went through (for items without a full object).
func checkItem(where string, item map[string]any, kb e2e.KB, tr *e2e.Trace) *problem {
	obj, hasObj := item["object"]
	fr, hasFr := item["filterResult"]
	if hasObj != kb.KeepFull {
		// a Deleted event of an object that is not kept carries no object either; presence rule is about keepFullObjectsInMemory
		return &problem{msg: fmt.Sprintf("%s: 'object' present=%v but keepFullObjectsInMemory=%v", where, hasObj, kb.KeepFull)}
	}
	if hasFr != (kb.Jq != "") {
		return &problem{msg: fmt.Sprintf("%s: 'filterResult' present=%v but jqFilter=%q", where, hasFr, kb.Jq)}
	}
	for k := range item {
		if k != "object" && k != "filterResult" {
			return &problem{msg: fmt.Sprintf("%s: unexpected field %q in an object item", where, k)}
		}
	}
	if kb.Jq == "" {
		return nil
	}
	// candidates for the object state this item describes
	var cands []map[string]any
	if hasObj {
		m, ok := obj.(map[string]any)
		if !ok {
			return &problem{msg: fmt.Sprintf("%s: 'object' is not a JSON object", where)}
		}
		cands = append(cands, m)
	} else {
		for key, hist := range tr.History {
			parts := strings.SplitN(key, "/", 2)
			for _, st := range hist {
				if st >= 0 {
					cands = append(cands, kit.Obj(parts[0], parts[1], e2e.Body(st)).Object)
				}
			}
		}
	}
	nonObj := false
	for _, cnd := range cands {
		outs, err := kit.JQ(kb.Jq, cnd)
		if err != nil || len(outs) != 1 {
			continue
		}
		if kit.Kind(outs[0]) != "object" {
			nonObj = true
		}
		if kit.Canon(outs[0]) == kit.Canon(fr) {
			return nil
		}
	}
	return &problem{msg: fmt.Sprintf("%s: filterResult %s is not the result of jqFilter %q for that object", where, kit.Canon(fr), kb.Jq), nonObjJq: nonObj && kit.Canon(fr) == "{}"}
}

func checkSnapshots(where string, ctx map[string]any, hook *e2e.HookSpec, want []string, tr *e2e.Trace) *problem {
	snaps, has := ctx["snapshots"]
	if len(want) == 0 {
		if has {
			return &problem{msg: fmt.Sprintf("%s: 'snapshots' present although the binding includes no snapshots", where)}
		}
		return nil
	}
	if !has {
		return &problem{msg: fmt.Sprintf("%s: 'snapshots' missing, expected keys %v", where, want)}
	}
	sm, ok := snaps.(map[string]any)
	if !ok {
		return &problem{msg: fmt.Sprintf("%s: 'snapshots' is not an object", where)}
	}
	if strings.Join(keysOf(sm), ",") != strings.Join(want, ",") {
		return &problem{msg: fmt.Sprintf("%s: snapshots keys %v, expected %v", where, keysOf(sm), want)}
	}
	for name, l := range sm {
		kb := hook.KubeBinding(name)
		items, ok := l.([]any)
		if !ok || kb == nil {
			return &problem{msg: fmt.Sprintf("%s: snapshot %s is not a list", where, name)}
		}
		for i, it := range items {
			m, ok := it.(map[string]any)
			if !ok {
				return &problem{msg: fmt.Sprintf("%s: snapshot %s[%d] is not an object", where, name, i)}
			}
			if p := checkItem(fmt.Sprintf("%s snapshots.%s[%d]", where, name, i), m, *kb, tr); p != nil {
				return p
			}
		}
	}
	return nil
}

func checkExec(ex e2e.Exec, tr *e2e.Trace) (p *problem, mixed bool, withJq bool) {
	hook := tr.Case.Hook(ex.Hook)
	where0 := fmt.Sprintf("hook %s execution %d", ex.Hook, ex.Seq)
	if ex.Contexts == nil {
		return &problem{msg: fmt.Sprintf("OBSERVED: %s: binding context file is not a JSON array (as read by the hook process itself): %q", where0, ex.Raw)}, false, false
	}
	types := map[string]bool{}
	for i, ctx := range ex.Contexts {
		where := fmt.Sprintf("%s context %d %s", where0, i, kit.Canon(ctx))
		if len(where) > 600 {
			where = where[:600]
		}
		b, ok := ctx["binding"].(string)
		if !ok {
			return &problem{msg: where + ": no 'binding'"}, false, false
		}
		typ, _ := ctx["type"].(string)
		types[typ] = true
		if hook.V0 {
			if _, isKube := ctx["resourceEvent"]; isKube || hook.KubeBinding(b) != nil {
				for _, k := range keysOf(ctx) {
					if !strings.Contains("binding resourceEvent resourceNamespace resourceKind resourceName", k) {
						return &problem{msg: where + ": unexpected field in a v0 kubernetes context: " + k}, false, false
					}
				}
				if _, ok := ctx["resourceEvent"].(string); !ok {
					return &problem{msg: where + ": v0 kubernetes context without resourceEvent"}, false, false
				}
			} else if !sameKeys(ctx, "binding") {
				return &problem{msg: where + ": v0 onStartup/schedule context must carry only 'binding'"}, false, false
			}
			continue
		}
		switch {
		case b == "onStartup" && typ == "":
			if !sameKeys(ctx, "binding") {
				return &problem{msg: where + ": onStartup context must carry only 'binding'"}, false, false
			}
		case typ == "Schedule":
			sb := hook.SchedBinding(b)
			if sb == nil {
				return &problem{msg: where + ": Schedule context for an unknown binding"}, false, false
			}
			inc := hook.EffectiveIncludes(sb.Includes, sb.Group)
			for _, k := range keysOf(ctx) {
				if k != "binding" && k != "type" && k != "snapshots" {
					return &problem{msg: where + ": unexpected field " + k + " in a Schedule context"}, false, false
				}
			}
			if p := checkSnapshots(where, ctx, hook, inc, tr); p != nil {
				return p, false, false
			}
		case typ == "Group":
			g, _ := ctx["groupName"].(string)
			if g == "" {
				return &problem{msg: where + ": Group context without groupName"}, false, false
			}
			for _, k := range keysOf(ctx) {
				if k != "binding" && k != "type" && k != "snapshots" && k != "groupName" {
					return &problem{msg: where + ": unexpected field " + k + " in a Group context (only snapshots and the group name are documented)"}, false, false
				}
			}
			var decl []string
			if kb := hook.KubeBinding(b); kb != nil {
				decl = kb.Includes
			} else if sb := hook.SchedBinding(b); sb != nil {
				decl = sb.Includes
			}
			if p := checkSnapshots(where, ctx, hook, hook.EffectiveIncludes(decl, g), tr); p != nil {
				return p, false, false
			}
		case typ == "Synchronization":
			kb := hook.KubeBinding(b)
			if kb == nil {
				return &problem{msg: where + ": Synchronization for an unknown binding"}, false, false
			}
			if kb.Jq != "" {
				withJq = true
			}
			for _, k := range keysOf(ctx) {
				if k != "binding" && k != "type" && k != "objects" && k != "snapshots" {
					return &problem{msg: where + ": unexpected field " + k + " in a Synchronization context"}, false, false
				}
			}
			objs, ok := ctx["objects"].([]any)
			if !ok {
				return &problem{msg: where + ": Synchronization without an 'objects' array"}, false, false
			}
			for j, it := range objs {
				m, ok := it.(map[string]any)
				if !ok {
					return &problem{msg: fmt.Sprintf("%s: objects[%d] is not an object", where, j)}, false, false
				}
				if p := checkItem(fmt.Sprintf("%s objects[%d]", where, j), m, *kb, tr); p != nil {
					return p, false, false
				}
			}
			if p := checkSnapshots(where, ctx, hook, hook.EffectiveIncludes(kb.Includes, kb.Group), tr); p != nil {
				return p, false, false
			}
		case typ == "Event":
			kb := hook.KubeBinding(b)
			if kb == nil {
				return &problem{msg: where + ": Event for an unknown binding"}, false, false
			}
			if kb.Jq != "" {
				withJq = true
			}
			we, _ := ctx["watchEvent"].(string)
			if we != "Added" && we != "Modified" && we != "Deleted" {
				return &problem{msg: where + ": Event without a valid watchEvent"}, false, false
			}
			for _, k := range keysOf(ctx) {
				if k != "binding" && k != "type" && k != "watchEvent" && k != "object" && k != "filterResult" && k != "snapshots" {
					return &problem{msg: where + ": unexpected field " + k + " in an Event context"}, false, false
				}
			}
			item := map[string]any{}
			if v, ok := ctx["object"]; ok {
				item["object"] = v
			}
			if v, ok := ctx["filterResult"]; ok {
				item["filterResult"] = v
			}
			if p := checkItem(where, item, *kb, tr); p != nil {
				return p, false, false
			}
			if p := checkSnapshots(where, ctx, hook, hook.EffectiveIncludes(kb.Includes, kb.Group), tr); p != nil {
				return p, false, false
			}
		default:
			return &problem{msg: where + ": context with unknown type"}, false, false
		}
	}
	return nil, len(types) >= 2, withJq
}

func run(c e2e.Case) (ev.Info, error) {
	info := ev.Info{}
	tr, err := e2e.Run(c)
	if err != nil {
		return info, err
	}
	tr = tr.FirstRun()
	var known *problem
	for _, ex := range tr.Execs {
		p, mixed, withJq := checkExec(ex, tr)
		if mixed || withJq {
			info.NonTrivial = true
		}
		if mixed {
			info.Labels = append(info.Labels, "mixed-context-types")
		}
		if p == nil {
			continue
		}
		if p.nonObjJq {
			if known == nil {
				known = p
			}
			continue
		}
		return info, fmt.Errorf("%s", p.msg)
	}
	if known != nil {
		info.Known = "C09-jq-nonobject-result"
		info.KnownDetail = known.msg
	}
	return info, nil
}

const rule = "generated scenarios through the full operator on a fake cluster (1-3 scripted hooks, v1 and v0 configs, onStartup, 0-3 kubernetes bindings with jqFilter from {none, object-, scalar- and null-valued}, keepFullObjectsInMemory, groups, includeSnapshotsFrom, executeHookOnEvent subsets, executeHookOnSynchronization, namespace selection, queues; 0-2 schedule bindings with groups/includes; cluster changes before, during and after start; injected ticks; bursts so that contexts get combined); every binding context file the hook processes saw is checked item by item against the documented shape per type, 'snapshots' present exactly when the effective include set is non-empty with exactly those keys, 'object' present iff keepFullObjectsInMemory, 'filterResult' present iff jqFilter and equal to an independent jq evaluation of that item's object. Non-trivial: an item with jqFilter or an array mixing >= 2 context types."

func TestContexts(t *testing.T) {
	ev.Main(t, ev.Spec[e2e.Case]{Property: "C09", Part: "e2e", Rule: rule, Gen: e2e.Gen, Run: run, Journal: true})
}
