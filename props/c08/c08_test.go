package c08

import (
	"context"
	"encoding/json"
	"fmt"
	hookconfig "github.com/flant/shell-operator/pkg/hook/config"
	"k8s.io/client-go/tools/cache"
	"testing"

	"github.com/deckhouse/deckhouse/pkg/log"
	kem "github.com/flant/shell-operator/pkg/kube_events_manager"
	kemtypes "github.com/flant/shell-operator/pkg/kube_events_manager/types"
	"k8s.io/apimachinery/pkg/apis/meta/v1/unstructured"
	"pgregory.net/rapid"

	"verif/internal/ev"
	"verif/internal/kit"
)

type Step struct {
	Op    string `json:"op"` // add update delete resync
	Obj   string `json:"obj"`
	State int    `json:"state"`
	// Init: an Added delivered from the informer's own initial list (isInInitialList): the object may have
	// changed since the binding listed it
	Init bool `json:"init,omitempty"`
	// Tombstone: a delete delivered as cache.DeletedFinalStateUnknown (client-go saw the deletion through a relist)
	Tombstone bool `json:"tombstone,omitempty"`
}

type Case struct {
	Events   []string         `json:"events"` // executeHookOnEvent subset; nil = default (all three)
	Default  bool             `json:"defaultEvents"`
	Filter   string           `json:"filter"`
	KeepFull bool             `json:"keepFull"`
	States   []map[string]any `json:"states"`
	Initial  map[string]int   `json:"initial"` // object -> state index present in the cluster before the monitor is created
	History  []Step           `json:"history"`
	// ViaConfig: the monitor is configured by loading a hook configuration (executeHookOnEvent as declared, possibly
	// empty, next to the deprecated watchEvent) instead of building the monitor configuration directly
	ViaConfig  bool     `json:"via_config,omitempty"`
	WatchEvent []string `json:"watch_event,omitempty"`
	HasWatch   bool     `json:"has_watch_event,omitempty"`
	// Kind: how the binding spells the kind ("" = ConfigMap); lower-case and plural spellings are accepted
	Kind string `json:"kind,omitempty"`
	// UnlockAfter: the events of the first n history steps arrive while the binding is still locked (its
	// Synchronization is running); they are buffered and handed over at the unlock: the same triggers, in order
	UnlockAfter int `json:"unlock_after,omitempty"`
}

var filters = []string{
	"", "", "",
	".metadata.labels", "{a: .spec.a, r: .spec.replicas}", ".spec", "{name: .metadata.name, l: .metadata.labels}",
	".spec.a // {}", ".spec | {x: .a.b}", "{phase: .status.phase}", ".data", "{n: (.spec.list | length)}",
	"[.spec.replicas, .status.phase]", ".spec.list", "(.metadata.labels // {}) | keys",
	".spec.replicas", ".status.phase", ".spec.list | length", ".metadata.name", ".status.ready",
	".spec.nothing",
	// several outputs (objects with distinct keys): the projection is all of them
	"{r: .spec.replicas}, {p: .status.phase}", "{app: .metadata.labels.app}, {note: .metadata.annotations.note}, {b: .spec.a.b}",
}

func genValue(t *rapid.T, label string) any {
	return rapid.SampledFrom([]any{"x", "y", 1.0, 2.0, true}).Draw(t, label)
}

// objG builds the object like kit.Obj and gives metadata.generation the type a client-go decoder gives it (int64;
// the generated description holds a JSON number).
func objG(ns, name string, body map[string]any) *unstructured.Unstructured {
	o := kit.Obj(ns, name, body)
	if md, ok := o.Object["metadata"].(map[string]any); ok {
		if g, ok := md["generation"].(float64); ok {
			md["generation"] = int64(g)
		}
	}
	return o
}

func genBody(t *rapid.T) map[string]any {
	b := map[string]any{}
	md := map[string]any{}
	switch rapid.IntRange(0, 3).Draw(t, "labels") {
	case 1:
		md["labels"] = map[string]any{}
	case 2:
		md["labels"] = map[string]any{"app": rapid.SampledFrom([]string{"x", "y"}).Draw(t, "app")}
	case 3:
		md["labels"] = map[string]any{"app": rapid.SampledFrom([]string{"x", "y"}).Draw(t, "app"), "tier": rapid.SampledFrom([]string{"x", "y"}).Draw(t, "tier")}
	}
	if rapid.Bool().Draw(t, "ann") {
		md["annotations"] = map[string]any{"note": rapid.SampledFrom([]string{"x", "y", "z"}).Draw(t, "note")}
	}
	b["metadata"] = md
	if rapid.IntRange(0, 5).Draw(t, "spec") > 0 {
		spec := map[string]any{}
		if rapid.IntRange(0, 3).Draw(t, "a") > 0 {
			spec["a"] = map[string]any{"b": float64(rapid.IntRange(0, 2).Draw(t, "b"))}
		}
		if rapid.IntRange(0, 3).Draw(t, "repl") > 0 {
			spec["replicas"] = float64(rapid.IntRange(0, 2).Draw(t, "replicas"))
		}
		if rapid.IntRange(0, 2).Draw(t, "l") > 0 {
			n := rapid.IntRange(0, 2).Draw(t, "ln")
			l := []any{}
			for i := 0; i < n; i++ {
				l = append(l, float64(rapid.IntRange(0, 1).Draw(t, "li")))
			}
			spec["list"] = l
		}
		b["spec"] = spec
	}
	if rapid.IntRange(0, 2).Draw(t, "status") > 0 {
		b["status"] = map[string]any{"phase": rapid.SampledFrom([]string{"Pending", "Running"}).Draw(t, "phase"), "ready": rapid.Bool().Draw(t, "ready")}
	}
	if rapid.Bool().Draw(t, "data") {
		b["data"] = map[string]any{"k": genValue(t, "dv")}
	}
	return b
}

func gen(t *rapid.T) Case {
	c := Case{Initial: map[string]int{}}
	if rapid.IntRange(0, 3).Draw(t, "defaultEvents") == 0 {
		c.Default = true
	} else {
		c.Events = []string{}
		for _, e := range []string{"Added", "Modified", "Deleted"} {
			if rapid.IntRange(0, 3).Draw(t, "ev"+e) > 0 {
				c.Events = append(c.Events, e)
			}
		}
	}
	if rapid.IntRange(0, 2).Draw(t, "viaConfig") == 0 {
		c.ViaConfig = true
		if rapid.Bool().Draw(t, "hasWatch") {
			c.HasWatch = true
			for _, e := range []string{"Added", "Modified", "Deleted"} {
				if rapid.Bool().Draw(t, "w"+e) {
					c.WatchEvent = append(c.WatchEvent, e)
				}
			}
		}
	}
	c.Kind = rapid.SampledFrom([]string{"", "", "", "configmap", "configmaps"}).Draw(t, "kind")
	if rapid.IntRange(0, 2).Draw(t, "locked") == 0 {
		c.UnlockAfter = rapid.IntRange(1, 8).Draw(t, "unlockAfter")
	}
	c.Filter = rapid.SampledFrom(filters).Draw(t, "filter")
	c.KeepFull = rapid.Bool().Draw(t, "keepFull")
	ns := rapid.IntRange(2, 5).Draw(t, "nstates")
	// in half of the cases the objects carry metadata.generation, as Deployments or custom resources do: it moves
	// with spec changes only, so states that differ in labels, annotations or data often share one generation
	withGeneration := rapid.Bool().Draw(t, "withGeneration")
	for i := 0; i < ns; i++ {
		b := genBody(t)
		if withGeneration {
			md, _ := b["metadata"].(map[string]any)
			if md == nil {
				md = map[string]any{}
				b["metadata"] = md
			}
			md["generation"] = float64(rapid.SampledFrom([]int{1, 1, 1, 2}).Draw(t, "generation"))
		}
		c.States = append(c.States, b)
	}
	objs := []string{"o1", "o2", "o3"}[:rapid.IntRange(1, 3).Draw(t, "nobj")]
	for _, o := range objs {
		if rapid.IntRange(0, 2).Draw(t, "init"+o) == 0 {
			c.Initial[o] = rapid.IntRange(0, ns-1).Draw(t, "istate")
		}
	}
	// the informer's own initial list: every object the binding listed comes again as Added, in its state of then
	for _, o := range objs {
		if st, ok := c.Initial[o]; ok && rapid.IntRange(0, 3).Draw(t, "relist"+o) > 0 {
			if rapid.Bool().Draw(t, "relistChanged") {
				st = rapid.IntRange(0, ns-1).Draw(t, "relistState")
			}
			c.History = append(c.History, Step{Op: "add", Obj: o, State: st, Init: true})
		}
	}
	n := rapid.IntRange(1, 16).Draw(t, "n")
	for i := 0; i < n; i++ {
		c.History = append(c.History, Step{
			Op:    rapid.SampledFrom([]string{"add", "update", "update", "update", "delete", "resync"}).Draw(t, "op"),
			Obj:   rapid.SampledFrom(objs).Draw(t, "obj"),
			State: rapid.IntRange(0, ns-1).Draw(t, "state"),
		})
		if st := &c.History[len(c.History)-1]; st.Op == "delete" && rapid.IntRange(0, 2).Draw(t, "tombstone") == 0 {
			st.Tombstone = true
		}
	}
	return c
}

type emitted struct {
	Type string
	Obj  string
	Proj string // canonical projection observed (filterResult) when a filter is set
	Full string // canonical full object when kept
}

func (e emitted) key() string { return e.Type + ":" + e.Obj }

// projection of an object state, computed independently with gojq.
func projection(filter string, o *unstructured.Unstructured) (any, error) {
	if filter == "" {
		return kit.DeepCopyJSON(o.Object), nil
	}
	outs, err := kit.JQ(filter, o.Object)
	if err != nil {
		return nil, err
	}
	if len(outs) > 1 {
		// outputs are objects with pairwise distinct keys (see the filter pool): their union says the same as the list
		union := map[string]any{}
		for _, o := range outs {
			m, ok := o.(map[string]any)
			if !ok {
				return nil, fmt.Errorf("filter %q: output %v of a multi-output filter is not an object", filter, o)
			}
			for k, v := range m {
				if _, dup := union[k]; dup {
					return nil, fmt.Errorf("filter %q: outputs share the key %q", filter, k)
				}
				union[k] = v
			}
		}
		return union, nil
	}
	if len(outs) != 1 {
		return nil, fmt.Errorf("filter %q yields %d outputs", filter, len(outs))
	}
	return outs[0], nil
}

func contains(l []string, s string) bool {
	for _, x := range l {
		if x == s {
			return true
		}
	}
	return false
}

type outcome struct {
	events []string // "Type:obj"
}

// expectedEvents computes the trigger sequence from the statement; asIfEmpty models the known
// defect (a non-object jq result is treated as {}).
func expectedEvents(c Case, listed []string, asIfEmpty bool) ([]string, bool, bool, error) {
	known := map[string]string{}
	proj := func(obj string, st int) (string, string, error) {
		p, err := projection(c.Filter, objG("d", obj, c.States[st]))
		if err != nil {
			return "", "", err
		}
		k := kit.Kind(p)
		if asIfEmpty && c.Filter != "" && k != "object" {
			return "{}", k, nil
		}
		return kit.Canon(p), k, nil
	}
	for o, st := range c.Initial {
		p, _, err := proj(o, st)
		if err != nil {
			return nil, false, false, err
		}
		known[o] = p
	}
	var out []string
	suppressed, delivered := map[string]bool{}, map[string]bool{}
	cur := map[string]int{}
	for o, st := range c.Initial {
		cur[o] = st
	}
	for _, s := range c.History {
		_, live := known[s.Obj]
		op := s.Op
		st := s.State
		switch op {
		case "update":
			if !live {
				op = "add"
			}
		case "resync":
			if !live {
				continue
			}
			st = cur[s.Obj]
		case "delete":
			if !live {
				continue
			}
		}
		switch op {
		case "add", "update", "resync":
			typ := "Added"
			if op != "add" {
				typ = "Modified"
			}
			p, _, err := proj(s.Obj, st)
			if err != nil {
				return nil, false, false, err
			}
			prev, had := known[s.Obj]
			known[s.Obj] = p
			cur[s.Obj] = st
			if contains(listed, typ) && (!had || prev != p) {
				out = append(out, typ+":"+s.Obj)
				if typ == "Modified" {
					delivered[s.Obj] = true
				}
			} else if typ == "Modified" && contains(listed, typ) {
				suppressed[s.Obj] = true
			}
		case "delete":
			delete(known, s.Obj)
			delete(cur, s.Obj)
			if contains(listed, "Deleted") {
				out = append(out, "Deleted:"+s.Obj)
			}
		}
	}
	nt := false
	for o := range suppressed {
		if delivered[o] {
			nt = true
		}
	}
	return out, nt, len(suppressed) > 0, nil
}

func runCase(c Case) (ev.Info, error) {
	info := ev.Info{}
	if len(c.States) == 0 {
		return info, nil
	}
	for i := range c.History {
		if c.History[i].State >= len(c.States) || c.History[i].State < 0 {
			c.History[i].State = 0
		}
	}
	for o, st := range c.Initial {
		if st >= len(c.States) || st < 0 {
			c.Initial[o] = 0
		}
	}
	fc := kit.NewCluster("d")
	for _, o := range kit.SortedKeys(c.Initial) {
		kit.Must(kit.Create(fc, objG("d", o, c.States[c.Initial[o]])))
	}
	kindSpelling := "ConfigMap"
	if c.Kind != "" {
		kindSpelling = c.Kind
	}
	cfg := &kem.MonitorConfig{ApiVersion: "v1", Kind: kindSpelling, JqFilter: c.Filter, KeepFullObjectsInMemory: c.KeepFull}
	listed := []string{"Added", "Modified", "Deleted"}
	if c.Default {
		cfg.WithEventTypes(nil)
	} else {
		var ts []kemtypes.WatchEventType
		for _, e := range c.Events {
			ts = append(ts, kemtypes.WatchEventType(e))
		}
		if ts == nil {
			ts = []kemtypes.WatchEventType{}
		}
		cfg.WithEventTypes(ts)
		listed = c.Events
	}
	if c.ViaConfig {
		// the same binding written as a hook configuration and loaded by the real loader
		kb := map[string]any{"name": "b", "apiVersion": "v1", "kind": kindSpelling, "keepFullObjectsInMemory": c.KeepFull}
		if c.Filter != "" {
			kb["jqFilter"] = c.Filter
		}
		if !c.Default {
			evs := []any{}
			for _, e := range c.Events {
				evs = append(evs, e)
			}
			kb["executeHookOnEvent"] = evs
		}
		if c.HasWatch {
			wevs := []any{}
			for _, e := range c.WatchEvent {
				wevs = append(wevs, e)
			}
			kb["watchEvent"] = wevs
			if c.Default {
				// executeHookOnEvent is not declared: the deprecated key decides
				listed = append([]string{}, c.WatchEvent...)
			}
		}
		text, _ := json.Marshal(map[string]any{"configVersion": "v1", "kubernetes": []any{kb}})
		hc := &hookconfig.HookConfig{}
		if err := hc.LoadAndValidate(text); err != nil {
			return info, fmt.Errorf("harness: hook configuration does not load: %v\n%s", err, text)
		}
		cfg = hc.OnKubernetesEvents[0].Monitor
		info.Labels = append(info.Labels, "via-config")
	}
	var got []emitted
	mon := kem.NewMonitor(context.Background(), fc.Client, kit.NopMetrics{}, cfg, func(e kemtypes.KubeEvent) {
		em := emitted{}
		if len(e.WatchEvents) == 1 {
			em.Type = string(e.WatchEvents[0])
		}
		if len(e.Objects) == 1 {
			o := e.Objects[0]
			id := o.Metadata.ResourceId
			em.Obj = id[len("d/ConfigMap/"):]
			em.Proj = kit.Canon(o.FilterResult)
			if o.Object != nil {
				em.Full = kit.Canon(o.Object.Object)
			}
		}
		got = append(got, em)
	}, log.NewNop())
	if err := mon.CreateInformers(); err != nil {
		return info, fmt.Errorf("harness: CreateInformers: %v", err)
	}
	if len(mon.ResourceInformers) != 1 {
		return info, fmt.Errorf("harness: expected one informer")
	}
	if c.UnlockAfter == 0 {
		mon.EnableKubeEventCb()
	}
	inf := mon.ResourceInformers[0]

	// drive the history; keep the latest state per live object
	live := map[string]int{}
	for o, st := range c.Initial {
		live[o] = st
	}
	var failure error
	var nonObject bool
	checkSnapshot := func(step int) error {
		snap := mon.Snapshot()
		if len(snap) != len(live) {
			return fmt.Errorf("step %d: snapshot has %d objects, %d are live", step, len(snap), len(live))
		}
		for _, s := range snap {
			name := s.Metadata.ResourceId[len("d/ConfigMap/"):]
			st, ok := live[name]
			if !ok {
				return fmt.Errorf("step %d: snapshot shows %s which is not live", step, name)
			}
			want := objG("d", name, c.States[st])
			if c.KeepFull {
				if s.Object == nil || kit.Canon(s.Object.Object) != kit.Canon(want.Object) {
					return fmt.Errorf("step %d: snapshot of %s does not show its latest state %d", step, name, st)
				}
			} else if s.Object != nil {
				return fmt.Errorf("step %d: full object kept although keepFullObjectsInMemory is false", step)
			}
			if c.Filter != "" {
				p, err := projection(c.Filter, want)
				if err != nil {
					return fmt.Errorf("harness: %v", err)
				}
				if kit.Kind(p) != "object" {
					nonObject = true
					continue // filterResult of non-object results: see finding, judged through the trigger oracle
				}
				if kit.Canon(s.FilterResult) != kit.Canon(p) {
					return fmt.Errorf("step %d: snapshot filterResult of %s is %s, jq gives %s for its latest state", step, name, kit.Canon(s.FilterResult), kit.Canon(p))
				}
			}
		}
		return nil
	}
	unlocked := c.UnlockAfter == 0
	for i, s := range c.History {
		if !unlocked && i >= c.UnlockAfter {
			mon.EnableKubeEventCb()
			unlocked = true
		}
		_, isLive := live[s.Obj]
		op, st := s.Op, s.State
		switch op {
		case "update":
			if !isLive {
				op = "add"
			}
		case "resync":
			if !isLive {
				continue
			}
			st = live[s.Obj]
		case "delete":
			if !isLive {
				continue
			}
		}
		o := objG("d", s.Obj, c.States[st])
		switch op {
		case "add":
			inf.OnAdd(o, s.Init)
			live[s.Obj] = st
		case "update", "resync":
			old := objG("d", s.Obj, c.States[live[s.Obj]])
			inf.OnUpdate(old, o)
			live[s.Obj] = st
		case "delete":
			gone := objG("d", s.Obj, c.States[live[s.Obj]])
			if s.Tombstone {
				inf.OnDelete(cache.DeletedFinalStateUnknown{Key: "d/" + s.Obj, Obj: gone})
			} else {
				inf.OnDelete(gone)
			}
			delete(live, s.Obj)
		}
		// (while the binding is locked no snapshot is read: a read would drop the buffered events - the open finding
		// C01-second-reader-drops-buffer, judged under C01)
		if unlocked {
			if err := checkSnapshot(i); err != nil && failure == nil {
				failure = err
			}
		}
	}
	if !unlocked {
		mon.EnableKubeEventCb()
	}
	if c.UnlockAfter > 0 {
		info.Labels = append(info.Labels, "events-buffered-before-unlock")
	}
	want, nt, anySuppressed, err := expectedEvents(c, listed, false)
	if err != nil {
		return info, fmt.Errorf("harness: %v", err)
	}
	info.NonTrivial = nt
	if anySuppressed {
		info.Labels = append(info.Labels, "suppressed-modified")
	}
	if c.Filter == "" {
		info.Labels = append(info.Labels, "filter:none")
	} else if p, err := projection(c.Filter, objG("d", "o1", c.States[0])); err == nil {
		info.Labels = append(info.Labels, "filter:"+kit.Kind(p))
	}
	var gotKeys []string
	for _, e := range got {
		gotKeys = append(gotKeys, e.key())
	}
	if failure == nil && fmt.Sprint(gotKeys) != fmt.Sprint(want) {
		failure = fmt.Errorf("events emitted %v, expected %v (executeHookOnEvent=%v filter=%q)", gotKeys, want, listed, c.Filter)
		if c.Filter != "" {
			// signature of the known defect: behaves exactly as if every non-object jq result were {}
			alt, _, _, _ := expectedEvents(c, listed, true)
			if fmt.Sprint(gotKeys) == fmt.Sprint(alt) && fmt.Sprint(alt) != fmt.Sprint(want) {
				info.Known = "C08-jq-nonobject-result"
				info.KnownDetail = failure.Error()
				return info, nil
			}
		}
	}
	_ = nonObject
	return info, failure
}

const rule = "one informer of a real monitor on a fake cluster (kind spelled ConfigMap, configmap or configmaps), unlocked from the start or - in a third of the cases - only after the first 1-8 steps (their events are buffered and handed over at the unlock), driven through OnAdd/OnUpdate/OnDelete with generated per-object histories over a pool of 2-5 generated object states (in half of the cases with metadata.generation, mostly equal across states as for status- or metadata-only changes; repeats, changes outside the projection, delete (also delivered as a DeletedFinalStateUnknown tombstone) and re-add, re-delivery of Added for listed objects - also flagged as coming from the informer's own initial list, possibly in a newer state -, resync), executeHookOnEvent all subsets plus default (in a third of the cases declared in a hook configuration loaded by the real loader, optionally next to the deprecated watchEvent), jqFilter from a pool of object/array/scalar/null-valued single-output expressions, two multi-output expressions (objects with distinct keys) or none; oracle: trigger <=> type listed and (Deleted or independently computed projection differs from the last known), and every snapshot shows the latest state. Non-trivial: one object had both a suppressed and a delivered Modified. Distinct = distinct cases."

func TestInformer(t *testing.T) {
	ev.Main(t, ev.Spec[Case]{Property: "C08", Part: "informer", Rule: rule, Gen: gen, Run: runCase})
}
