package c06

import (
	"fmt"
	"sort"
	"testing"

	"verif/internal/e2e"
	"verif/internal/ev"
)

func isOnStartupCtx(ex e2e.Exec) bool {
	return len(ex.Contexts) == 1 && ex.Contexts[0]["binding"] == "onStartup" && ex.Contexts[0]["type"] == nil
}

func runE2E(c e2e.Case) (ev.Info, error) {
	info := ev.Info{}
	tr, err := e2e.Run(c)
	if err != nil {
		return info, err
	}
	tr = tr.FirstRun()
	if len(tr.Problems) > 0 {
		return info, fmt.Errorf("TIMING: %v", tr.Problems)
	}
	// --- A. onStartup hooks: exactly once each, in (order, name) order, failed attempts directly before, before anything else
	type sh struct {
		name  string
		order int
		fails int
	}
	var startup []sh
	perOrder := map[int]int{}
	for _, h := range c.Hooks {
		if h.OnStartup != nil {
			startup = append(startup, sh{h.Name, *h.OnStartup, h.StartupFails})
			perOrder[*h.OnStartup]++
			if h.StartupFails > 0 {
				info.NonTrivial = true
			}
		}
	}
	for _, n := range perOrder {
		if n >= 2 {
			info.NonTrivial = true
		}
	}
	sort.SliceStable(startup, func(i, j int) bool {
		if startup[i].order != startup[j].order {
			return startup[i].order < startup[j].order
		}
		return startup[i].name < startup[j].name
	})
	pos := 0
	var lastEnd int64
	for _, s := range startup {
		for k := 0; k <= s.fails; k++ {
			if pos >= len(tr.Execs) {
				return info, fmt.Errorf("onStartup execution of hook %s (attempt %d) is missing", s.name, k+1)
			}
			ex := tr.Execs[pos]
			if ex.Hook != s.name || !isOnStartupCtx(ex) {
				return info, fmt.Errorf("execution #%d at start is hook %s with contexts %v, expected the onStartup execution of hook %s (ascending ORDER, then hook path)", pos, ex.Hook, ex.Contexts, s.name)
			}
			wantExit := 0
			if k < s.fails {
				wantExit = 1
			}
			if ex.Exit != wantExit {
				return info, fmt.Errorf("harness: scripted exit code mismatch for %s", s.name)
			}
			if ex.Start < lastEnd {
				return info, fmt.Errorf("onStartup execution of hook %s started before the previous startup execution ended", s.name)
			}
			lastEnd = ex.End
			pos++
		}
	}
	for _, ex := range tr.Execs[pos:] {
		if isOnStartupCtx(ex) {
			return info, fmt.Errorf("hook %s was executed with the onStartup context more than once (or out of order)", ex.Hook)
		}
		if ex.Start < lastEnd {
			return info, fmt.Errorf("hook %s execution started before the last onStartup execution ended", ex.Hook)
		}
	}
	// --- B..E per hook
	firstSyncOfHook := map[string]int64{}
	for _, h := range c.Hooks {
		ctxs := tr.Contexts(h.Name)
		var lastSyncEnd int64
		groupsSeen := map[string]bool{}
		for _, kb := range h.Kube {
			nSync := 0
			var syncEnd int64
			for _, r := range ctxs {
				if r.Ctx["binding"] == kb.Name && r.Ctx["type"] == "Synchronization" {
					if r.Exec.Exit == 0 {
						nSync++
						syncEnd = r.Exec.End
					}
					if t, ok := firstSyncOfHook[h.Name]; !ok || r.Exec.Start < t {
						firstSyncOfHook[h.Name] = r.Exec.Start
					}
				}
			}
			switch {
			case h.V0 || !kb.OnSync:
				if nSync != 0 {
					return info, fmt.Errorf("hook %s binding %s: a Synchronization context was delivered although executeHookOnSynchronization is false (or configVersion is v0)", h.Name, kb.Name)
				}
			case kb.Group == "":
				if nSync != 1 {
					return info, fmt.Errorf("hook %s binding %s: %d successful Synchronization executions, expected exactly one", h.Name, kb.Name, nSync)
				}
				if syncEnd > lastSyncEnd {
					lastSyncEnd = syncEnd
				}
				// no Event of the binding before its Synchronization completed
				for _, r := range ctxs {
					if r.Ctx["binding"] == kb.Name && r.Ctx["type"] == "Event" && r.Exec.Start < syncEnd {
						return info, fmt.Errorf("OBSERVED: hook %s binding %s: an Event was executed before the binding's Synchronization completed successfully", h.Name, kb.Name)
					}
				}
			default:
				if nSync != 0 {
					return info, fmt.Errorf("hook %s binding %s (group %s): a grouped binding received a Synchronization context instead of a Group context", h.Name, kb.Name, kb.Group)
				}
				if !groupsSeen[kb.Group] {
					groupsSeen[kb.Group] = true
					found := false
					for _, r := range ctxs {
						if r.Ctx["type"] == "Group" && r.Ctx["groupName"] == kb.Group && r.Exec.Exit == 0 {
							found = true
							if r.Exec.End > lastSyncEnd {
								// only the first Group execution is the synchronization one; later ones are events
							}
							if t, ok := firstSyncOfHook[h.Name]; !ok || r.Exec.Start < t {
								firstSyncOfHook[h.Name] = r.Exec.Start
							}
							break
						}
					}
					if !found {
						return info, fmt.Errorf("hook %s group %s: no Group execution for the Synchronization of its bindings", h.Name, kb.Group)
					}
					info.NonTrivial = true
				}
			}
		}
		// bindings of one group share one Group execution for their Synchronization: decidable when the first two
		// bindings form the group (declared next to each other, both with executeHookOnSynchronization), nothing changed
		// in the cluster during start-up and no schedule binding is in the group - then every Group execution of the
		// start-up phase is a Synchronization one
		if !h.V0 && len(h.Kube) >= 2 && h.Kube[0].Group != "" && h.Kube[0].Group == h.Kube[1].Group && h.Kube[0].OnSync && h.Kube[1].OnSync && len(c.Early) == 0 {
			g := h.Kube[0].Group
			decidable := true
			for i, kb := range h.Kube {
				if i >= 2 && kb.Group == g {
					decidable = false
				}
			}
			for _, sb := range h.Sched {
				if sb.Group == g {
					decidable = false
				}
			}
			if decidable {
				n := 0
				seenExec := map[*e2e.Exec]bool{}
				for i, ex := range tr.Execs {
					if i >= tr.StartupExecs {
						break
					}
					if ex.Hook != h.Name || ex.Exit != 0 {
						continue
					}
					for _, cx := range ex.Contexts {
						if cx["type"] == "Group" && cx["groupName"] == g && !seenExec[&tr.Execs[i]] {
							seenExec[&tr.Execs[i]] = true
							n++
						}
					}
				}
				if n != 1 {
					return info, fmt.Errorf("hook %s group %s: the Synchronization of its two bindings (%s in queue %q, %s in queue %q) was delivered in %d successful Group executions during start-up, bindings of one group share one", h.Name, g, h.Kube[0].Name, h.Kube[0].Queue, h.Kube[1].Name, h.Kube[1].Queue, n)
				}
				info.Labels = append(info.Labels, "group-synchronization-counted")
			}
		}
		// schedules of the hook start only after its Synchronizations
		for _, r := range ctxs {
			if r.Ctx["type"] == "Schedule" && r.Exec.Start < lastSyncEnd {
				return info, fmt.Errorf("OBSERVED: hook %s: a Schedule context was executed before the hook's last Synchronization completed", h.Name)
			}
		}
	}
	// hooks are enabled in alphabetical order
	var names []string
	for n := range firstSyncOfHook {
		names = append(names, n)
	}
	sort.Strings(names)
	for i := 1; i < len(names); i++ {
		if firstSyncOfHook[names[i]] < firstSyncOfHook[names[i-1]] {
			return info, fmt.Errorf("hook %s received its first Synchronization before hook %s: hooks are not enabled in alphabetical order", names[i], names[i-1])
		}
	}
	if tr.HeldSyncs > 0 {
		info.Labels = append(info.Labels, "sync-held-while-cluster-changes")
	}
	return info, nil
}

const ruleE2E = "generated scenarios through the full operator (see C09) with 1-3 hooks, equal and different onStartup orders, startup and Synchronization executions failing once, grouped and ungrouped kubernetes bindings, executeHookOnSynchronization true/false, v0 hooks, schedules ticking from the very beginning, and Synchronization executions parked on a gate while cluster changes arrive; oracle on the global order of executions in the hook log: onStartup hooks exactly once in (ORDER, path) order with failed attempts directly before and before anything else; each ungrouped binding with executeHookOnSynchronization exactly one successful Synchronization, none when the flag is false or for v0, one Group execution per group; no Event of a binding and no Schedule of a hook before the corresponding Synchronization completed; hooks enabled in alphabetical order. Non-trivial: equal ORDER values, a group, or a failed startup execution."

func TestE2E(t *testing.T) {
	ev.Main(t, ev.Spec[e2e.Case]{Property: "C06", Part: "e2e", Rule: ruleE2E, Gen: e2e.Gen, Run: runE2E, Journal: true})
}
