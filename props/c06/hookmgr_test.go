package c06

import (
	"fmt"
	"os"
	"path/filepath"
	"sort"
	"testing"

	htypes "github.com/flant/shell-operator/pkg/hook/types"
	"pgregory.net/rapid"

	"verif/internal/ev"
	"verif/internal/hk"
	"verif/internal/vh"
)

type HookSpec struct {
	Path  string `json:"path"`
	Order *int   `json:"order,omitempty"` // nil: no onStartup binding
}

type OrderCase struct {
	Hooks []HookSpec `json:"hooks"`
}

func genOrder(t *rapid.T) OrderCase {
	c := OrderCase{}
	n := rapid.IntRange(1, 24).Draw(t, "n")
	if rapid.Bool().Draw(t, "many") {
		n = rapid.IntRange(13, 24).Draw(t, "n13")
	}
	orders := rapid.SliceOfNDistinct(rapid.IntRange(-5, 50), 1, 3, func(i int) int { return i }).Draw(t, "orders")
	if rapid.IntRange(0, 3).Draw(t, "zeroOrder") == 0 {
		// 0 is an order like any other
		has := false
		for _, o := range orders {
			has = has || o == 0
		}
		if !has {
			orders[0] = 0
		}
	}
	seen := map[string]bool{}
	dirs := []string{"", "", "a", "b", "a/x", "zz"}
	for i := 0; i < n; i++ {
		p := filepath.Join(rapid.SampledFrom(dirs).Draw(t, "dir"), fmt.Sprintf("%02d-hook", rapid.IntRange(0, 40).Draw(t, "num")))
		if rapid.IntRange(0, 3).Draw(t, "sibling") == 0 {
			// a top-level file whose name continues the name of a directory with a byte lower than '/':
			// the order of a directory walk differs from the order of the paths
			p = rapid.SampledFrom([]string{"a-x", "a.sh", "a b", "b-1", "b.sh", "zz-top", "zz.sh", "a"}).Draw(t, "siblingName")
			if p == "a" {
				p = "zz/a" // (a file cannot share the name of a directory)
			}
		}
		if seen[p] {
			continue
		}
		seen[p] = true
		h := HookSpec{Path: p}
		if rapid.IntRange(0, 6).Draw(t, "has") > 0 {
			o := rapid.SampledFrom(orders).Draw(t, "order")
			h.Order = &o
		}
		c.Hooks = append(c.Hooks, h)
	}
	return c
}

func runOrder(c OrderCase) (ev.Info, error) {
	info := ev.Info{}
	scratch := hk.Scratch("c06")
	defer os.RemoveAll(scratch)
	root := filepath.Join(scratch, "hooks")
	tree, err := vh.NewTree(root, hk.VHookBin())
	if err != nil {
		return info, fmt.Errorf("harness: %v", err)
	}
	type hs struct {
		path  string
		order int
	}
	var want []hs
	perOrder := map[int]int{}
	for _, h := range c.Hooks {
		cfg := `{"configVersion":"v1","schedule":[{"crontab":"* * * * *"}]}`
		if h.Order != nil {
			cfg = fmt.Sprintf(`{"configVersion":"v1","onStartup":%d}`, *h.Order)
			want = append(want, hs{h.Path, *h.Order})
			perOrder[*h.Order]++
		}
		if err := tree.AddHook(h.Path, 0o755, vh.Script{Config: cfg}); err != nil {
			return info, fmt.Errorf("harness: %v", err)
		}
	}
	for _, n := range perOrder {
		if n >= 2 {
			info.NonTrivial = true
		}
	}
	if len(want) > 12 {
		info.Labels = append(info.Labels, "more-than-12-onStartup")
	}
	sort.SliceStable(want, func(i, j int) bool {
		if want[i].order != want[j].order {
			return want[i].order < want[j].order
		}
		return want[i].path < want[j].path
	})
	hm := hk.NewManager(root, filepath.Join(scratch))
	if err := hm.Init(); err != nil {
		return info, fmt.Errorf("harness: Init: %v", err)
	}
	// called twice, as the operator does (bootstrap and later lookups): the answer must be stable
	for round := 0; round < 2; round++ {
		got, err := hm.GetHooksInOrder(htypes.OnStartup)
		if err != nil {
			return info, fmt.Errorf("GetHooksInOrder: %v", err)
		}
		var wantNames []string
		for _, w := range want {
			wantNames = append(wantNames, w.path)
		}
		if fmt.Sprint(got) != fmt.Sprint(wantNames) {
			return info, fmt.Errorf("onStartup order (call %d) is %v, expected ascending ORDER then hook path: %v", round+1, got, wantNames)
		}
	}
	return info, nil
}

const ruleOrder = "sets of 1-24 hooks in nested directories, each with an onStartup value drawn from 1-3 distinct orders (so equal orders are frequent, half of the cases have 13-24 hooks) or without onStartup; loaded by the real hook.Manager.Init from generated hook files; GetHooksInOrder(OnStartup) must be sorted by (order, path). Non-trivial: >= 2 hooks share an order value. Distinct = distinct hook sets."

func TestStartupOrder(t *testing.T) {
	ev.Main(t, ev.Spec[OrderCase]{Property: "C06", Part: "hookmgr", Rule: ruleOrder, Gen: genOrder, Run: runOrder})
}
