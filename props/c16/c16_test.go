package c16

import (
	"context"
	"encoding/json"
	"fmt"
	"math"
	"sort"
	"strings"
	"testing"

	"github.com/deckhouse/deckhouse/pkg/log"
	metricstorage "github.com/flant/shell-operator/pkg/metric_storage"
	"github.com/flant/shell-operator/pkg/metric_storage/operation"
	dto "github.com/prometheus/client_model/go"
	"pgregory.net/rapid"

	"verif/internal/ev"
	_ "verif/internal/kit"
)

// Op is one metric operation as a hook writes it (one JSON document of the metrics file).
type Op struct {
	Name    string            `json:"name,omitempty"`
	Group   string            `json:"group,omitempty"`
	Action  string            `json:"action,omitempty"`
	Value   *float64          `json:"value,omitempty"`
	Add     *float64          `json:"add,omitempty"`
	Set     *float64          `json:"set,omitempty"`
	Buckets []float64         `json:"buckets,omitempty"`
	Labels  map[string]string `json:"labels,omitempty"`
}

type Batch struct {
	Hook    string `json:"hook"`
	Ops     []Op   `json:"ops"`
	Invalid string `json:"invalid,omitempty"` // how one operation was broken ("" = valid batch)
}

type Case struct {
	Batches []Batch `json:"batches"`
}

// Metric name pool. Type and use are fixed per name (a Prometheus name has one type; a name
// registered as a grouped collector cannot also be registered as an ordinary vector).
type nameInfo struct {
	name    string
	typ     string // counter gauge histogram
	grouped bool
	labels  []string // ungrouped metrics keep one label-name set (client_golang requirement)
	// bare: a grouped metric reported without any labels, always under the group fixedGroup (so that the one series
	// never lives in two groups at once)
	bare       bool
	fixedGroup string
}

var names = []nameInfo{
	{name: "m_cnt_g", typ: "counter", grouped: true},
	{name: "m_gauge_g", typ: "gauge", grouped: true},
	{name: "m_gauge2_g", typ: "gauge", grouped: true},
	{name: "m_bare_g", typ: "gauge", grouped: true, bare: true, fixedGroup: "g1"},
	{name: "m_barecnt_g", typ: "counter", grouped: true, bare: true, fixedGroup: "g2"},
	{name: "m_cnt", typ: "counter", labels: []string{"a"}},
	{name: "m_gauge", typ: "gauge", labels: []string{"a", "b"}},
	{name: "m_hist", typ: "histogram", labels: []string{"a"}},
}

var groups = []string{"g1", "g2", "g3"}

func f(v float64) *float64 { return &v }

func genValue(t *rapid.T) float64 {
	if rapid.IntRange(0, 3).Draw(t, "frac") == 0 {
		return float64(rapid.IntRange(0, 40).Draw(t, "v4")) / 4
	}
	return float64(rapid.IntRange(0, 9).Draw(t, "v"))
}

func genOp(t *rapid.T) Op {
	ni := rapid.SampledFrom(names).Draw(t, "name")
	op := Op{Name: ni.name}
	v := genValue(t)
	if ni.bare {
		op.Group = ni.fixedGroup
		if rapid.Bool().Draw(t, "emptyLabels") {
			op.Labels = map[string]string{}
		}
	} else if ni.grouped {
		op.Group = rapid.SampledFrom(groups).Draw(t, "group")
		// label values are group specific so that one series never lives in two groups at once
		op.Labels = map[string]string{}
		for _, l := range []string{"a", "b", "c"} {
			// at least one label carries the group-specific value
			if l == "a" || rapid.IntRange(0, 2).Draw(t, "has"+l) > 0 {
				op.Labels[l] = op.Group + rapid.SampledFrom([]string{"x", "y"}).Draw(t, "lv")
			}
		}
		if rapid.IntRange(0, 11).Draw(t, "expire") == 0 {
			return Op{Group: op.Group, Action: "expire"}
		}
	} else {
		op.Labels = map[string]string{}
		for _, l := range ni.labels {
			op.Labels[l] = rapid.SampledFrom([]string{"x", "y"}).Draw(t, "lv")
		}
	}
	if !ni.bare && rapid.IntRange(0, 7).Draw(t, "ownHookLabel") == 0 {
		// a hook may write a label called "hook" itself
		op.Labels["hook"] = "h9"
	}
	short := rapid.IntRange(0, 2).Draw(t, "shortcut") == 0
	switch ni.typ {
	case "counter":
		if short {
			op.Add = f(v)
		} else {
			op.Action, op.Value = "add", f(v)
		}
	case "gauge":
		if short {
			op.Set = f(v)
		} else {
			op.Action, op.Value = "set", f(v)
		}
	case "histogram":
		op.Action, op.Value, op.Buckets = "observe", f(v), []float64{1, 5}
	}
	return op
}

var faults = []string{"no-action", "unknown-action", "observe-in-group", "missing-name", "missing-value", "missing-buckets", "add-and-set", "expire-without-group"}

func breakOp(op Op, fault string) Op {
	switch fault {
	case "no-action":
		op.Action, op.Add, op.Set = "", nil, nil
	case "unknown-action":
		op.Action, op.Add, op.Set, op.Value = "increment", nil, nil, f(1)
	case "observe-in-group":
		op = Op{Name: "m_gauge_g", Group: "g1", Action: "observe", Value: f(1), Buckets: []float64{1}}
	case "missing-name":
		op.Name = ""
		if op.Action == "expire" {
			op.Action, op.Value = "set", f(1)
		}
	case "missing-value":
		op.Value, op.Add, op.Set = nil, nil, nil
		if op.Action == "" || op.Action == "expire" {
			op.Action = "set"
		}
	case "missing-buckets":
		op = Op{Name: "m_hist", Action: "observe", Value: f(1), Labels: map[string]string{"a": "x"}}
	case "add-and-set":
		op.Add, op.Set, op.Action, op.Value = f(1), f(2), "", nil
	case "expire-without-group":
		// expire is documented for groups only
		op = Op{Name: "m_gauge_a", Action: "expire"}
	}
	return op
}

func gen(t *rapid.T) Case {
	c := Case{}
	nb := rapid.IntRange(1, 10).Draw(t, "nb")
	for i := 0; i < nb; i++ {
		b := Batch{Hook: rapid.SampledFrom([]string{"h1", "h2", "h3"}).Draw(t, "hook")}
		n := rapid.IntRange(1, 8).Draw(t, "nops")
		for j := 0; j < n; j++ {
			b.Ops = append(b.Ops, genOp(t))
		}
		if rapid.IntRange(0, 5).Draw(t, "invalid") == 0 {
			b.Invalid = rapid.SampledFrom(faults).Draw(t, "fault")
			k := rapid.IntRange(0, len(b.Ops)-1).Draw(t, "pos")
			b.Ops[k] = breakOp(b.Ops[k], b.Invalid)
		}
		c.Batches = append(c.Batches, b)
	}
	return c
}

// ---- reference registry ----

type series struct {
	name   string
	labels string // canonical "k=v,k=v" without empty values
}

type hist struct {
	count uint64
	sum   float64
}

type model struct {
	plain   map[series]float64
	hists   map[series]*hist
	grouped map[string]map[series]float64
}

func canonLabels(l map[string]string) string {
	ks := []string{}
	for k, v := range l {
		if v != "" {
			ks = append(ks, k+"="+v)
		}
	}
	sort.Strings(ks)
	return strings.Join(ks, ",")
}

func info(name string) *nameInfo {
	for i := range names {
		if names[i].name == name {
			return &names[i]
		}
	}
	return nil
}

func (m *model) apply(b Batch) {
	withHook := func(l map[string]string) string {
		x := map[string]string{}
		for k, v := range l {
			x[k] = v
		}
		// the label "hook" always names the hook that reported the batch, whatever the hook itself wrote there
		x["hook"] = b.Hook
		return canonLabels(x)
	}
	mentioned := map[string]bool{}
	for _, op := range b.Ops {
		if op.Group != "" && !mentioned[op.Group] {
			mentioned[op.Group] = true
			m.grouped[op.Group] = map[series]float64{}
		}
	}
	for _, op := range b.Ops {
		val := 0.0
		action := op.Action
		switch {
		case op.Value != nil:
			val = *op.Value
		case op.Add != nil:
			val, action = *op.Add, "add"
		case op.Set != nil:
			val, action = *op.Set, "set"
		}
		s := series{op.Name, withHook(op.Labels)}
		if op.Group != "" {
			switch action {
			case "expire":
				m.grouped[op.Group] = map[series]float64{}
			case "add":
				m.grouped[op.Group][s] += val
			case "set":
				m.grouped[op.Group][s] = val
			}
			continue
		}
		switch action {
		case "add":
			m.plain[s] += val
		case "set":
			m.plain[s] = val
		case "observe":
			h := m.hists[s]
			if h == nil {
				h = &hist{}
				m.hists[s] = h
			}
			h.count++
			h.sum += val
		}
	}
}

func (m *model) render() map[string]string {
	out := map[string]string{}
	for s, v := range m.plain {
		out[s.name+"{"+s.labels+"}"] = fmt.Sprintf("%g", v)
	}
	for s, h := range m.hists {
		out[s.name+"{"+s.labels+"}"] = fmt.Sprintf("count=%d sum=%g", h.count, h.sum)
	}
	for _, g := range m.grouped {
		for s, v := range g {
			out[s.name+"{"+s.labels+"}"] = fmt.Sprintf("%g", v)
		}
	}
	return out
}

func gather(ms *metricstorage.MetricStorage) (map[string]string, error) {
	fams, err := ms.Gatherer.Gather()
	if err != nil {
		return nil, fmt.Errorf("Gather: %v", err)
	}
	out := map[string]string{}
	for _, fam := range fams {
		for _, m := range fam.Metric {
			l := map[string]string{}
			for _, lp := range m.Label {
				l[lp.GetName()] = lp.GetValue()
			}
			key := fam.GetName() + "{" + canonLabels(l) + "}"
			var v string
			switch fam.GetType() {
			case dto.MetricType_COUNTER:
				v = fmt.Sprintf("%g", m.Counter.GetValue())
			case dto.MetricType_GAUGE:
				v = fmt.Sprintf("%g", m.Gauge.GetValue())
			case dto.MetricType_HISTOGRAM:
				v = fmt.Sprintf("count=%d sum=%g", m.Histogram.GetSampleCount(), m.Histogram.GetSampleSum())
			}
			if old, dup := out[key]; dup {
				return nil, fmt.Errorf("series %s is exported twice (%s and %s)", key, old, v)
			}
			out[key] = v
		}
	}
	return out, nil
}

func diff(got, want map[string]string) string {
	var d []string
	for k, v := range want {
		if g, ok := got[k]; !ok {
			d = append(d, fmt.Sprintf("missing %s=%s", k, v))
		} else if g != v {
			d = append(d, fmt.Sprintf("%s is %s, expected %s", k, g, v))
		}
	}
	for k, v := range got {
		if _, ok := want[k]; !ok {
			d = append(d, fmt.Sprintf("unexpected %s=%s", k, v))
		}
	}
	sort.Strings(d)
	return strings.Join(d, "; ")
}

func render(b Batch) []byte {
	var sb strings.Builder
	for _, op := range b.Ops {
		j, _ := json.Marshal(op)
		sb.Write(j)
		sb.WriteString("\n")
	}
	return []byte(sb.String())
}

func fractionalGroupedAdd(c Case) bool {
	for _, b := range c.Batches {
		for _, op := range b.Ops {
			if op.Group != "" {
				for _, v := range []*float64{op.Value, op.Add} {
					if v != nil && info(op.Name) != nil && info(op.Name).typ == "counter" && *v != math.Trunc(*v) {
						return true
					}
				}
			}
		}
	}
	return false
}

func runCase(c Case) (ev.Info, error) {
	inf := ev.Info{}
	ms := metricstorage.NewMetricStorage(context.Background(), "p_", true, log.NewNop())
	m := &model{plain: map[series]float64{}, hists: map[series]*hist{}, grouped: map[string]map[series]float64{}}
	groupReports := map[string][]string{}
	for i, b := range c.Batches {
		ops, err := operation.MetricOperationsFromBytes(render(b))
		if err != nil {
			return inf, fmt.Errorf("harness: metrics file does not parse: %v", err)
		}
		err = ms.SendBatch(ops, map[string]string{"hook": b.Hook})
		if b.Invalid != "" {
			inf.Labels = append(inf.Labels, "invalid:"+b.Invalid)
			if err == nil {
				return inf, fmt.Errorf("batch %d: invalid batch (%s) was accepted", i, b.Invalid)
			}
		} else {
			if err != nil {
				return inf, fmt.Errorf("batch %d: valid batch rejected: %v", i, err)
			}
			m.apply(b)
			seen := map[string]bool{}
			for _, op := range b.Ops {
				if op.Group != "" && !seen[op.Group] {
					seen[op.Group] = true
					var ks []string
					for s := range m.grouped[op.Group] {
						ks = append(ks, s.name+s.labels)
					}
					sort.Strings(ks)
					sig := strings.Join(ks, "|")
					for _, prev := range groupReports[op.Group] {
						if prev != sig {
							inf.NonTrivial = true
						}
					}
					groupReports[op.Group] = append(groupReports[op.Group], sig)
				}
			}
		}
		got, err := gather(ms)
		if err != nil {
			return inf, fmt.Errorf("batch %d: %v", i, err)
		}
		if d := diff(got, m.render()); d != "" {
			what := "after batch"
			if b.Invalid != "" {
				what = "after rejected batch (nothing may be applied)"
			}
			return inf, fmt.Errorf("batch %d: registry differs from reference %s: %s", i, what, d)
		}
	}
	return inf, nil
}

const rule = "histories of 1-10 metric batches (1-8 operations each, rendered as the JSON stream a hook writes and parsed by MetricOperationsFromBytes) from 3 hooks over 8 metric names (grouped counter/gauges, a grouped gauge and a grouped counter reported without any labels, ungrouped counter/gauge/histogram), 3 groups, label subsets, add/set/observe/expire and the add:/set: shortcuts, integer and fractional values, 1 in 6 batches with one broken operation; after every batch Gatherer.Gather() must equal a reference registry. Non-trivial: a group reported at least twice with different series sets. Distinct = distinct histories."

func TestMetrics(t *testing.T) {
	ev.Main(t, ev.Spec[Case]{Property: "C16", Part: "metrics", Rule: rule, Gen: gen, Run: runCase})
}
