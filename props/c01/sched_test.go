package c01

import (
	"fmt"
	"strings"
	"testing"

	"verif/internal/ev"
	"verif/internal/ksched"
)

// knownLoss maps a tracked drop kind to the id of the finding that describes it.
var knownLoss = map[string]string{
	"second-reader-drops-buffer":      "C01-second-reader-drops-buffer",
	"other-reader-drops-buffer":       "C01-second-reader-drops-buffer",
	"snapshot-copy-reset-window":      "C01-snapshot-copy-reset-window",
	"flag-read-append-window":         "C01-flag-read-append-window",
	"dynamic-namespace-enable-window": "C01-dynamic-namespace-enable-window",
	"dynamic-informer-initial-list":   "C01-dynamic-informer-initial-list",
}

func run(c ksched.Case) (ev.Info, error) {
	res, err := ksched.Run(c)
	if err != nil {
		return res.Info, err
	}
	info := res.Info
	var known string
	var knownDetail string
	for _, v := range res.Violations {
		if !strings.HasPrefix(v.Kind, "C01:") {
			continue
		}
		if v.Kind == ksched.KLost && len(v.Losses) > 0 {
			// every loss kind that explains it must be a listed finding; report the first one
			all := true
			for _, l := range v.Losses {
				if knownLoss[l] == "" {
					all = false
				}
			}
			if all {
				if known == "" {
					known = knownLoss[v.Losses[0]]
					knownDetail = fmt.Sprintf("%s [explained by: %s]", v.Detail, strings.Join(v.Losses, ", "))
				}
				continue
			}
		}
		return info, fmt.Errorf("%s: %s", v.Kind, v.Detail)
	}
	if known != "" {
		info.Known, info.KnownDetail = known, knownDetail
	}
	return info, nil
}

const rule = "a real monitor (all namespaces / static namespaces / namespace.labelSelector with namespaces labelled after start; nameSelector; executeHookOnEvent subsets; object-valued jqFilter; keepFullObjectsInMemory) on a fake cluster under a cooperative scheduler: actors SYNC (Snapshot, 0-3 hook steps, EnableKubeEventCb), 0-2 readers calling Snapshot 1-3 times, one delivery actor per watch event (sequential per informer), informer-start relists, namespace Added deliveries and 1-12 cluster operations are interleaved at the yield points between critical sections by 10-150 generated picks (biased towards the windows), then drained; oracle per object: there is a cut of its delivered history such that the Synchronization view equals the state at the cut and the Events handed over equal the filtered changes after an earlier-or-equal cut, in order; no Event before the unlock began. Non-trivial: a watch delivery happened while SYNC was between Snapshot and the end of the unlock. Distinct = distinct cases (configuration + history + schedule)."

func TestSched(t *testing.T) {
	ev.Main(t, ev.Spec[ksched.Case]{Property: "C01", Part: "sched", Rule: rule, Gen: ksched.Gen, Run: run, RegressRepeat: 3})
}
