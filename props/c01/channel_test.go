package c01

import (
	"context"
	"fmt"
	"strings"
	"sync"
	"testing"
	"time"

	"github.com/deckhouse/deckhouse/pkg/log"
	kem "github.com/flant/shell-operator/pkg/kube_events_manager"
	kemtypes "github.com/flant/shell-operator/pkg/kube_events_manager/types"
	"k8s.io/apimachinery/pkg/watch"
	dynfake "k8s.io/client-go/dynamic/fake"
	clienttesting "k8s.io/client-go/testing"
	"pgregory.net/rapid"

	"verif/internal/ev"
	"verif/internal/kit"
)

// The way from the informers to the consumer of the event channel: a real KubeEventsManager with real monitors on
// a fake cluster; the harness is the consumer of Ch() and decides when it reads. Objects are changed in bursts while
// the consumer is not reading (the operator's events handler is busy): per object the Events must come out of the
// channel in the order of the changes, none lost, none invented.

type ChChange struct {
	Obj   int `json:"obj"`
	State int `json:"state"`
}

type ChCase struct {
	Objects int        `json:"objects"`
	Changes []ChChange `json:"changes"`
	// ReadEvery: 0 = the consumer starts reading only after all changes were made; n > 0 = it reads one event after
	// every n-th change
	ReadEvery int `json:"read_every"`
	// Locked: the changes are made before the binding is unlocked, the unlock hands the buffered Events over in one go
	Locked bool `json:"locked"`
}

func genChannel(t *rapid.T) ChCase {
	c := ChCase{Objects: rapid.IntRange(1, 4).Draw(t, "objects"), ReadEvery: rapid.SampledFrom([]int{0, 0, 1, 2, 5}).Draw(t, "readEvery"), Locked: rapid.Bool().Draw(t, "locked")}
	last := map[int]int{}
	for i, n := 0, rapid.IntRange(3, 40).Draw(t, "n"); i < n; i++ {
		o := rapid.IntRange(0, c.Objects-1).Draw(t, "obj")
		// consecutive states of an object differ: every change is reported
		s := (last[o] + rapid.IntRange(1, 4).Draw(t, "step")) % 6
		last[o] = s
		c.Changes = append(c.Changes, ChChange{Obj: o, State: s})
	}
	return c
}

func chState(o kemtypes.ObjectAndFilterResult) string {
	if o.Object == nil {
		return "?"
	}
	d, _ := o.Object.Object["data"].(map[string]any)
	return fmt.Sprint(d["state"])
}

func runChannel(c ChCase) (ev.Info, error) {
	info := ev.Info{}
	kem.DefaultFactoryStore.Reset()
	fc := kit.NewCluster("default")
	name := func(o int) string { return fmt.Sprintf("o%d", o) }
	body := func(s int) map[string]any { return map[string]any{"data": map[string]any{"state": fmt.Sprint(s)}} }
	for o := 0; o < c.Objects; o++ {
		if err := kit.Create(fc, kit.Obj("default", name(o), body(0))); err != nil {
			return info, fmt.Errorf("harness: %v", err)
		}
	}
	// (the fake API server does not replay changes made between an informer's list and its watch request: wait for
	// the watch before changing anything)
	watching := make(chan struct{})
	var watchOnce sync.Once
	if fd, ok := fc.Client.Dynamic().(*dynfake.FakeDynamicClient); ok {
		fd.PrependWatchReactor("configmaps", func(a clienttesting.Action) (bool, watch.Interface, error) {
			w, err := fd.Tracker().Watch(a.GetResource(), a.GetNamespace())
			if err != nil {
				return false, nil, err
			}
			watchOnce.Do(func() { close(watching) })
			return true, w, nil
		})
	} else {
		watchOnce.Do(func() { close(watching) })
	}
	ctx, cancel := context.WithCancel(context.Background())
	defer cancel()
	mgr := kem.NewKubeEventsManager(ctx, fc.Client, log.NewNop())
	mgr.WithMetricStorage(kit.NopMetrics{})
	cfg := &kem.MonitorConfig{ApiVersion: "v1", Kind: "ConfigMap", KeepFullObjectsInMemory: true,
		NamespaceSelector: &kemtypes.NamespaceSelector{NameSelector: &kemtypes.NameSelector{MatchNames: []string{"default"}}}}
	cfg.WithEventTypes(nil)
	cfg.Metadata.MonitorId = "mon-channel"
	cfg.Metadata.DebugName = "mon-channel"
	if err := mgr.AddMonitor(cfg); err != nil {
		return info, fmt.Errorf("harness: AddMonitor: %v", err)
	}
	mgr.StartMonitor(cfg.Metadata.MonitorId)
	mon := mgr.GetMonitor(cfg.Metadata.MonitorId)
	defer func() {
		cancel()
		_ = mgr.StopMonitor(cfg.Metadata.MonitorId)
		// let senders that are still blocked on the channel go
		for {
			select {
			case <-mgr.Ch():
				continue
			case <-time.After(20 * time.Millisecond):
			}
			break
		}
	}()
	select {
	case <-watching:
	case <-time.After(10 * time.Second):
		return info, fmt.Errorf("harness: the informer did not start watching")
	}
	if n := len(mon.Snapshot()); n != c.Objects {
		return info, fmt.Errorf("harness: the start snapshot holds %d objects, %d exist", n, c.Objects)
	}
	if !c.Locked {
		mon.EnableKubeEventCb()
	}
	got := map[string][]string{}
	total := 0
	take := func(wait time.Duration) bool {
		select {
		case e := <-mgr.Ch():
			for i, o := range e.Objects {
				typ := ""
				if i < len(e.WatchEvents) {
					typ = string(e.WatchEvents[i])
				}
				if typ != "Modified" {
					got[o.Metadata.ResourceId] = append(got[o.Metadata.ResourceId], typ+":"+chState(o))
				} else {
					got[o.Metadata.ResourceId] = append(got[o.Metadata.ResourceId], chState(o))
				}
				total++
			}
			return true
		case <-time.After(wait):
			return false
		}
	}
	want := map[string][]string{}
	for i, ch := range c.Changes {
		if err := kit.Update(fc, kit.Obj("default", name(ch.Obj), body(ch.State))); err != nil {
			return info, fmt.Errorf("harness: %v", err)
		}
		id := "default/ConfigMap/" + name(ch.Obj)
		want[id] = append(want[id], fmt.Sprint(ch.State))
		if !c.Locked && c.ReadEvery > 0 && (i+1)%c.ReadEvery == 0 {
			take(500 * time.Millisecond)
		}
	}
	if c.Locked {
		// give the informer a moment to deliver the changes into the binding's buffer (no snapshot is read meanwhile:
		// a read would drop the buffer, the open finding second-reader-drops-buffer); a change that arrives after
		// the unlock is simply reported directly, the order must hold either way
		time.Sleep(30 * time.Millisecond)
		go mon.EnableKubeEventCb()
	} else {
		// give the producers time to pile up behind the channel
		time.Sleep(5 * time.Millisecond)
	}
	for total < len(c.Changes) {
		if !take(3 * time.Second) {
			break
		}
	}
	// nothing more may come
	for take(30 * time.Millisecond) {
	}
	if len(c.Changes) >= 6 && (c.ReadEvery == 0 || c.Locked) {
		info.NonTrivial = true
	}
	var diffs []string
	for id, w := range want {
		if strings.Join(got[id], " ") != strings.Join(w, " ") {
			diffs = append(diffs, fmt.Sprintf("%s: changed to states [%s] in this order, the Events taken from the channel carry [%s]", id, strings.Join(w, " "), strings.Join(got[id], " ")))
		}
	}
	for id := range got {
		if _, ok := want[id]; !ok {
			diffs = append(diffs, fmt.Sprintf("%s: Events [%s] for an object that was not changed", id, strings.Join(got[id], " ")))
		}
	}
	if len(diffs) > 0 {
		return info, fmt.Errorf("OBSERVED: %s", strings.Join(diffs, "; "))
	}
	return info, nil
}

const ruleChannel = "a real KubeEventsManager with one real monitor (all event types, full objects) on a fake cluster holding 1-4 ConfigMaps; 3-40 modifications (consecutive states of an object differ) are made while the consumer of the event channel - the harness - is not reading at all, reads one event per 1, 2 or 5 changes, or - in half of the cases - while the binding is still locked, so that the unlock hands the buffered Events over in one go; then the channel is drained; oracle: per object the states carried by the Events equal the states written, in the same order (none lost, duplicated or invented). Real threads (sampled); the sequences are observed facts. Non-trivial: >= 6 changes with a consumer that lags behind."

func TestChannel(t *testing.T) {
	ev.Main(t, ev.Spec[ChCase]{Property: "C01", Part: "channel", Rule: ruleChannel, Gen: genChannel, Run: runChannel, Journal: true})
}
