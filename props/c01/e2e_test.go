package c01

import (
	"fmt"
	"testing"

	"verif/internal/e2e"
	"verif/internal/ev"
)

// secondReader reports whether an execution of another binding that reads kb's snapshot (includeSnapshotsFrom or
// the same group) started while kb's Synchronization was being executed, i.e. between the start of the first and
// the end of the successful execution carrying it. That is the situation of the open finding
// C01-second-reader-drops-buffer (Synchronization tasks always run in the main queue, the other binding's tasks
// may run in its own queue at the same time).
func secondReader(h e2e.HookSpec, kb e2e.KB, ctxs []e2e.CtxRef) bool {
	reads := map[string]bool{}
	for _, k2 := range h.Kube {
		if k2.Name == kb.Name {
			continue
		}
		for _, inc := range h.EffectiveIncludes(k2.Includes, k2.Group) {
			if inc == kb.Name {
				reads[k2.Name] = true
			}
		}
	}
	for _, s2 := range h.Sched {
		for _, inc := range h.EffectiveIncludes(s2.Includes, s2.Group) {
			if inc == kb.Name {
				reads[s2.Name] = true
			}
		}
	}
	isSync := func(r e2e.CtxRef) bool {
		if kb.Group != "" {
			return r.Ctx["type"] == "Group" && r.Ctx["groupName"] == kb.Group
		}
		return r.Ctx["binding"] == kb.Name && r.Ctx["type"] == "Synchronization"
	}
	var from, to int64
	for _, r := range ctxs {
		if !isSync(r) {
			continue
		}
		if from == 0 {
			from = r.Exec.Start
		}
		if r.Exec.Exit == 0 {
			to = r.Exec.End
			break
		}
	}
	if from == 0 || to == 0 {
		return false
	}
	const slack = int64(20e6)
	for _, r := range ctxs {
		b, _ := r.Ctx["binding"].(string)
		if reads[b] && !isSync(r) && r.Exec.Start >= from-slack && r.Exec.Start <= to+slack {
			return true
		}
	}
	return false
}

func runE2E(c e2e.Case) (ev.Info, error) {
	info := ev.Info{}
	tr, err := e2e.Run(c)
	if err != nil {
		return info, err
	}
	tr = tr.FirstRun()
	if len(tr.Problems) > 0 {
		return info, fmt.Errorf("%v", tr.Problems)
	}
	for _, h := range c.Hooks {
		if h.V0 {
			continue
		}
		ctxs := tr.Contexts(h.Name)
		for _, kb := range h.Kube {
			if kb.Group != "" {
				// grouped binding: after the last change a Group execution must show the final state
				if !kb.KeepFull || !kb.AllEv || !(kb.Jq == "" || kb.Jq == ".data") {
					continue // only when every change passes the binding's filters
				}
				// the last change (made after startup) to an object this binding selects
				var lastChange int64
				for k, t := range tr.LastStepChange {
					if kb.Selects(k) && t > lastChange {
						lastChange = t
					}
				}
				if lastChange == 0 {
					continue
				}
				// a Group execution of this group must have started after it and show the final state of the binding
				var last *e2e.CtxRef
				for i := range ctxs {
					r := ctxs[i]
					if r.Ctx["type"] == "Group" && r.Ctx["groupName"] == kb.Group && r.Exec.Exit == 0 {
						last = &ctxs[i]
					}
				}
				if last == nil || last.Exec.Start < lastChange {
					if secondReader(h, kb, ctxs) {
						info.Known, info.KnownDetail = "C01-second-reader-drops-buffer", fmt.Sprintf("hook %s binding %s (group %s): a change was not followed by a Group execution; another binding read the snapshot while the Synchronization was running", h.Name, kb.Name, kb.Group)
						return info, nil
					}
					return info, fmt.Errorf("hook %s binding %s (group %s): a change to a matching object was not followed by a Group execution (last change to a matching object is later than the start of the last Group execution)", h.Name, kb.Name, kb.Group)
				}
				snaps, _ := last.Ctx["snapshots"].(map[string]any)
				l, _ := snaps[kb.Name].([]any)
				got, _, _, ok := e2e.ListState(l)
				if !ok {
					continue
				}
				want := tr.Matching(kb)
				if e2e.FmtState(got) != e2e.FmtState(want) {
					return info, fmt.Errorf("hook %s binding %s (group %s): the last Group execution shows %s, the matching objects of the cluster are %s: a change was not followed by a Group execution reflecting it", h.Name, kb.Name, kb.Group, e2e.FmtState(got), e2e.FmtState(want))
				}
				info.Labels = append(info.Labels, "grouped-binding-checked")
				continue
			}
			sync := tr.SyncSuccess(h.Name, kb.Name)
			// no Event before the Synchronization completed successfully
			if kb.OnSync {
				for _, r := range ctxs {
					if r.Ctx["binding"] == kb.Name && r.Ctx["type"] == "Event" {
						if sync == nil || r.Exec.Start < sync.Exec.End {
							return info, fmt.Errorf("OBSERVED: hook %s binding %s: an Event was handed to the hook (execution %d) before the binding's Synchronization completed successfully", h.Name, kb.Name, r.Exec.Seq)
						}
					}
				}
			}
			if !kb.OnSync || !kb.KeepFull || !kb.AllEv || sync == nil || !(kb.Jq == "" || kb.Jq == ".data") {
				continue // replay needs full objects and every change passing the binding's filters
			}
			objs, _ := sync.Ctx["objects"].([]any)
			state, _, _, ok := e2e.ListState(objs)
			if !ok {
				continue
			}
			nEvents := 0
			for _, r := range ctxs {
				if r.Ctx["binding"] != kb.Name || r.Ctx["type"] != "Event" || r.Exec.Exit != 0 {
					continue
				}
				k, st, has := e2e.ItemKeyState(r.Ctx)
				if !has {
					continue
				}
				nEvents++
				switch r.Ctx["watchEvent"] {
				case "Added", "Modified":
					state[k] = st
				case "Deleted":
					delete(state, k)
				}
			}
			want := tr.Matching(kb)
			if e2e.FmtState(state) != e2e.FmtState(want) {
				if secondReader(h, kb, ctxs) {
					info.Known, info.KnownDetail = "C01-second-reader-drops-buffer", fmt.Sprintf("hook %s binding %s: Synchronization view plus the %d delivered Events give %s, cluster %s; another binding read the snapshot while the Synchronization was running", h.Name, kb.Name, nEvents, e2e.FmtState(state), e2e.FmtState(want))
					return info, nil
				}
				return info, fmt.Errorf("hook %s binding %s: Synchronization view plus the %d delivered Events give %s, the matching objects of the cluster are %s", h.Name, kb.Name, nEvents, e2e.FmtState(state), e2e.FmtState(want))
			}
			if nEvents > 0 {
				info.NonTrivial = true
			}
			info.Labels = append(info.Labels, "replay-checked")
		}
	}
	return info, nil
}

const ruleE2E = "generated scenarios through the full operator with real informers, queues and hook processes (see C09): cluster changes before, during and after start; for every ungrouped kubernetes binding with all three event types and full objects: objects of the successful Synchronization context replayed with the Event contexts the hook received, in log order, equal the final matching cluster state; no Event context before the binding's Synchronization execution ended successfully; for grouped bindings the last Group execution shows the final state. Threads and processes are not controlled (sampling). Non-trivial: at least one Event was replayed."

func TestE2E(t *testing.T) {
	ev.Main(t, ev.Spec[e2e.Case]{Property: "C01", Part: "e2e", Rule: ruleE2E, Gen: e2e.Gen, Run: runE2E, Journal: true})
}
