package c12

import (
	"context"
	"encoding/json"
	"fmt"
	"os"
	"path/filepath"
	"strings"
	"testing"
	"time"

	metricstorage "github.com/flant/shell-operator/pkg/metric_storage"
	metav1 "k8s.io/apimachinery/pkg/apis/meta/v1"
	"pgregory.net/rapid"

	"verif/internal/ev"
	"verif/internal/hcfg"
	"verif/internal/kit"
	"verif/internal/opkit"
	"verif/internal/vh"
)

// Step is one hook execution with scripted behaviour.
type Step struct {
	Hook       int    `json:"hook"`
	Exit       string `json:"exit"` // 0 1 2 127 signal
	Metrics    string `json:"metrics"`
	Patch      string `json:"patch"`
	Admission  string `json:"admission"`
	Conversion string `json:"conversion"`
	// Hold: keep this execution parked on a gate while the next step (another hook, another queue) runs.
	Hold bool `json:"hold,omitempty"`
}

type Case struct {
	NestedDirs bool   `json:"nested"`
	// Colliding: the two hooks have names that look alike once path separators and dots are replaced (x/h.sh, x-h.sh)
	Colliding bool `json:"colliding,omitempty"`
	// Tmp: how the temporary directory is given to the operator (--tmp-dir): "" as an absolute path of an existing
	// directory without the bootstrap step; otherwise through EnsureTempDirectory as "absolute" or "relative" (to the
	// operator's working directory) path of an "existing" or "new" directory
	Tmp   string `json:"tmp,omitempty"`
	Steps []Step `json:"steps"`
}

var fileStates = []string{"untouched", "untouched", "untouched", "untouched", "valid", "valid", "valid", "truncated", "wrongtype", "deleted"}

func gen(t *rapid.T) Case {
	c := Case{NestedDirs: rapid.Bool().Draw(t, "nested")}
	c.Colliding = rapid.IntRange(0, 3).Draw(t, "colliding") == 0
	c.Tmp = rapid.SampledFrom([]string{"", "", "absolute-existing", "absolute-new", "relative-existing", "relative-existing", "relative-new"}).Draw(t, "tmp")
	n := rapid.IntRange(1, 5).Draw(t, "n")
	for i := 0; i < n; i++ {
		s := Step{Hook: rapid.IntRange(0, 1).Draw(t, "hook")}
		s.Exit = rapid.SampledFrom([]string{"0", "0", "0", "0", "0", "0", "0", "1", "2", "127", "signal"}).Draw(t, "exit")
		s.Metrics = rapid.SampledFrom(append([]string{"trailing"}, fileStates...)).Draw(t, "metrics")
		s.Patch = rapid.SampledFrom(append([]string{"trailing", "unappliable"}, fileStates...)).Draw(t, "patch")
		// the webhook response files are mostly left alone by a hook that runs for a schedule binding
		quiet := []string{"untouched", "untouched", "untouched", "untouched", "untouched", "untouched", "untouched", "untouched", "valid", "valid", "truncated", "wrongtype", "deleted"}
		s.Admission = rapid.SampledFrom(quiet).Draw(t, "admission")
		s.Conversion = rapid.SampledFrom(quiet).Draw(t, "conversion")
		s.Hold = rapid.IntRange(0, 2).Draw(t, "hold") == 0
		c.Steps = append(c.Steps, s)
	}
	return c
}

func fileFor(kind, state string, k int) *vh.File {
	valid := map[string]string{
		"metrics":    fmt.Sprintf(`{"name":"c12_exec_%d","set":%d,"labels":{"k":"v"}}`, k, k+1),
		"patch":      fmt.Sprintf(`{"operation":"CreateIfNotExists","object":{"apiVersion":"v1","kind":"ConfigMap","metadata":{"name":"c12-%d","namespace":"default"},"data":{"k":"v"}}}`, k),
		"admission":  `{"allowed":true,"message":"ok"}`,
		"conversion": `{"convertedObjects":[]}`,
	}
	switch state {
	case "untouched":
		return nil
	case "valid":
		return &vh.File{Content: valid[kind]}
	case "truncated":
		v := valid[kind]
		return &vh.File{Content: v[:len(v)/2]}
	case "unappliable":
		// well-formed, but the API refuses it: patch of an object that does not exist
		return &vh.File{Content: `{"operation":"MergePatch","apiVersion":"v1","kind":"ConfigMap","namespace":"default","name":"c12-no-such-object","mergePatch":{"data":{"a":"b"}}}`}
	case "trailing":
		// a complete document followed by a stray closing bracket: not a stream of JSON documents
		return &vh.File{Content: valid[kind] + []string{"}", "]", "\n}\n"}[k%3]}
	case "wrongtype":
		if kind == "patch" {
			return &vh.File{Content: `[1, 2, 3]`}
		}
		if kind == "metrics" {
			return &vh.File{Content: `"just a string"`}
		}
		return &vh.File{Content: `[{"allowed":true}]`}
	case "deleted":
		return &vh.File{Delete: true}
	}
	return nil
}

func behaviour(s Step, k int, gate string) vh.Behaviour {
	b := vh.Behaviour{Gate: gate}
	switch s.Exit {
	case "signal":
		b.Signal = true
		b.Exit = 137
	case "0":
	default:
		fmt.Sscanf(s.Exit, "%d", &b.Exit)
	}
	b.Metrics = fileFor("metrics", s.Metrics, k)
	b.Patch = fileFor("patch", s.Patch, k)
	b.Admission = fileFor("admission", s.Admission, k)
	b.Conversion = fileFor("conversion", s.Conversion, k)
	return b
}

// expectation: "success", "fail" or "unspecified"
func expect(s Step) string {
	if s.Exit != "0" {
		return "fail"
	}
	states := []string{s.Metrics, s.Patch, s.Admission, s.Conversion}
	for _, st := range states {
		if st == "truncated" || st == "wrongtype" || st == "trailing" || st == "unappliable" {
			return "fail"
		}
	}
	for _, st := range states {
		if st == "deleted" {
			return "unspecified"
		}
	}
	return "success"
}

var crontabs = []string{"0 0 1 1 *", "0 0 2 2 *"}

func startsOf(recs []vh.Record, hook string) []vh.Record {
	var out []vh.Record
	for _, r := range recs {
		if r.Hook == hook && r.Phase == "start" {
			out = append(out, r)
		}
	}
	return out
}

func init() {
	// the operator itself may have been started with these variables set (from a wrapper, or as a hook of another
	// operator): every execution gets its own values all the same
	for _, n := range vh.EnvNames {
		os.Setenv(n, "/nonexistent/inherited-"+n)
	}
}

func runCase(c Case) (ev.Info, error) {
	info := ev.Info{}
	fc := kit.NewCluster("default")
	env, err := opkit.New("c12", fc)
	if err != nil {
		return info, fmt.Errorf("harness: %v", err)
	}
	defer env.Close()
	hooks := []string{"h0", "h1"}
	if c.NestedDirs {
		hooks = []string{"dir a/h0", "b/c/h1"}
	}
	if c.Colliding {
		hooks = []string{"x/h.sh", "x-h.sh"}
	}
	for i, h := range hooks {
		d := hcfg.D{Schedules: []hcfg.Sched{{Name: fmt.Sprintf("tick%d", i), Crontab: crontabs[i], Queue: fmt.Sprintf("q%d", i)}}}
		if err := env.Tree.AddHook(h, 0o755, vh.Script{Config: d.JSON()}); err != nil {
			return info, fmt.Errorf("harness: %v", err)
		}
	}
	if c.Tmp != "" {
		info.Labels = append(info.Labels, "tmp-dir:"+c.Tmp)
		if strings.HasSuffix(c.Tmp, "-new") {
			env.TmpDir = filepath.Join(filepath.Dir(env.TmpDir), "tmp-new")
		}
		env.TmpArg = env.TmpDir
		if strings.HasPrefix(c.Tmp, "relative") {
			cwd, err := os.Getwd()
			if err != nil {
				return info, fmt.Errorf("harness: %v", err)
			}
			if env.TmpArg, err = filepath.Rel(cwd, env.TmpDir); err != nil {
				return info, fmt.Errorf("harness: %v", err)
			}
		}
	}
	if err := env.Assemble(); err != nil {
		if c.Tmp != "" {
			return info, fmt.Errorf("initialization fails with the temporary directory given as %s path (%s): %v", c.Tmp, env.TmpArg, err)
		}
		return info, fmt.Errorf("harness: assemble: %v", err)
	}
	env.Start()
	if !env.WaitIdle(3*time.Millisecond, 20*time.Second) {
		return info, fmt.Errorf("harness: operator did not become idle after start")
	}
	ms, ok := env.Op.HookMetricStorage.(*metricstorage.MetricStorage)
	if !ok {
		return info, fmt.Errorf("harness: hook metric storage has unexpected type")
	}
	allPaths := map[string]string{}
	type pending struct {
		k    int
		step Step
		n0   int
		gate string
	}
	wantCtx := func(i int) string {
		return kit.Canon([]any{map[string]any{"binding": fmt.Sprintf("tick%d", i), "type": "Schedule"}})
	}
	launch := func(k int, s Step, gate string) (pending, error) {
		h := hooks[s.Hook]
		script := vh.Script{Rules: []vh.Rule{{Times: 1, Do: behaviour(s, k, gate)}, {Do: vh.Behaviour{}}}}
		if err := env.Tree.SetScript(h, script); err != nil {
			return pending{}, fmt.Errorf("harness: %v", err)
		}
		recs, _ := env.Tree.ReadLog()
		n0 := len(startsOf(recs, h))
		env.Tick(crontabs[s.Hook])
		_, ok := env.Tree.WaitLog(20*time.Second, func(rs []vh.Record) bool { return len(startsOf(rs, h)) > n0 })
		if !ok {
			return pending{}, fmt.Errorf("step %d: hook %s was not executed within 20s after its tick", k, h)
		}
		return pending{k: k, step: s, n0: n0, gate: gate}, nil
	}
	finish := func(p pending) error {
		h := hooks[p.step.Hook]
		if !env.WaitIdle(3*time.Millisecond, 20*time.Second) {
			return fmt.Errorf("step %d: operator did not become idle", p.k)
		}
		recs, _ := env.Tree.ReadLog()
		starts := startsOf(recs, h)[p.n0:]
		hookAbs := filepath.Join(env.HooksDir, h)
		for _, r := range starts {
			if r.Cwd != filepath.Dir(hookAbs) {
				return fmt.Errorf("step %d: hook %s was started in %s, expected its own directory %s", p.k, h, r.Cwd, filepath.Dir(hookAbs))
			}
			if len(r.Args) != 0 {
				return fmt.Errorf("step %d: hook started with arguments %v", p.k, r.Args)
			}
			for _, n := range vh.EnvNames {
				v, ok := r.Env[n]
				if !ok || v == "" {
					return fmt.Errorf("step %d: environment variable %s is not set for the hook", p.k, n)
				}
				if filepath.Dir(v) != env.TmpDir {
					return fmt.Errorf("step %d: %s=%s is not in the temporary directory %s", p.k, n, v, env.TmpDir)
				}
			}
			if r.Env["VALIDATING_RESPONSE_PATH"] != r.Env["ADMISSION_RESPONSE_PATH"] {
				return fmt.Errorf("step %d: VALIDATING_RESPONSE_PATH differs from ADMISSION_RESPONSE_PATH", p.k)
			}
			for _, n := range []string{"METRICS_PATH", "CONVERSION_RESPONSE_PATH", "ADMISSION_RESPONSE_PATH", "KUBERNETES_PATCH_PATH"} {
				st := r.Files[n]
				if !st.Exists || st.Size != 0 {
					return fmt.Errorf("step %d: %s is not an existing empty file at hook start (exists=%v size=%d)", p.k, n, st.Exists, st.Size)
				}
			}
			for _, n := range []string{"BINDING_CONTEXT_PATH", "METRICS_PATH", "CONVERSION_RESPONSE_PATH", "ADMISSION_RESPONSE_PATH", "KUBERNETES_PATCH_PATH"} {
				id := fmt.Sprintf("%s/%d/%s", h, r.Seq, n)
				if other, dup := allPaths[r.Env[n]]; dup && other != id {
					return fmt.Errorf("step %d: file %s is used twice: by %s and by %s", p.k, r.Env[n], other, id)
				}
				allPaths[r.Env[n]] = id
			}
			if r.Context == nil {
				return fmt.Errorf("step %d: binding context file is not valid JSON: %q", p.k, r.RawCtx)
			}
			var v any
			_ = json.Unmarshal(r.Context, &v)
			if kit.Canon(v) != wantCtx(p.step.Hook) {
				return fmt.Errorf("step %d: binding context file holds %s, expected exactly the contexts of the task %s", p.k, kit.Canon(v), wantCtx(p.step.Hook))
			}
		}
		exp := expect(p.step)
		switch exp {
		case "success":
			if len(starts) != 1 {
				return fmt.Errorf("step %d (%+v): expected one successful execution, the hook was executed %d times", p.k, p.step, len(starts))
			}
		case "fail":
			if len(starts) != 2 {
				return fmt.Errorf("step %d (%+v): the execution must fail and be retried once (second run succeeds), the hook was executed %d times", p.k, p.step, len(starts))
			}
		}
		// effects
		fams, err := ms.Gatherer.Gather()
		if err != nil {
			return fmt.Errorf("harness: gather: %v", err)
		}
		metricSeen := false
		for _, f := range fams {
			if f.GetName() == fmt.Sprintf("c12_exec_%d", p.k) {
				metricSeen = true
			}
		}
		_, cmErr := fc.Client.Dynamic().Resource(kit.CMGVR).Namespace("default").Get(context.TODO(), fmt.Sprintf("c12-%d", p.k), metav1.GetOptions{})
		cmSeen := cmErr == nil
		switch {
		case p.step.Exit != "0":
			if metricSeen || cmSeen {
				return fmt.Errorf("step %d (%+v): hook exited non-zero but its output was applied (metric=%v patch=%v)", p.k, p.step, metricSeen, cmSeen)
			}
		case exp == "success":
			if (p.step.Metrics == "valid") != metricSeen {
				return fmt.Errorf("step %d (%+v): metric applied=%v", p.k, p.step, metricSeen)
			}
			if (p.step.Patch == "valid") != cmSeen {
				return fmt.Errorf("step %d (%+v): patch applied=%v", p.k, p.step, cmSeen)
			}
		}
		ents, _ := os.ReadDir(env.TmpDir)
		if len(ents) > 0 {
			var names []string
			for _, e := range ents {
				names = append(names, e.Name())
			}
			return fmt.Errorf("step %d (%+v): temporary files left after the execution ended: %s", p.k, p.step, strings.Join(names, ", "))
		}
		return nil
	}
	overlapped := false
	for k := 0; k < len(c.Steps); k++ {
		s := c.Steps[k]
		if s.Metrics == "valid" || s.Patch == "valid" || s.Admission == "valid" || s.Conversion == "valid" {
			info.NonTrivial = true
		}
		if s.Hold && k+1 < len(c.Steps) && c.Steps[k+1].Hook != s.Hook {
			gate := fmt.Sprintf("g%d", k)
			p, err := launch(k, s, gate)
			if err != nil {
				return info, err
			}
			q, err := launch(k+1, c.Steps[k+1], "")
			if err != nil {
				return info, err
			}
			// the second hook must finish while the first is parked: different queues
			h2 := hooks[c.Steps[k+1].Hook]
			_, ok := env.Tree.WaitLog(20*time.Second, func(rs []vh.Record) bool {
				n := 0
				for _, r := range rs {
					if r.Hook == h2 && r.Phase == "end" {
						n++
					}
				}
				return n > q.n0
			})
			if !ok {
				return info, fmt.Errorf("step %d: hook %s did not finish while hook %s of another queue was still running", k+1, h2, hooks[s.Hook])
			}
			overlapped = true
			if err := env.Tree.OpenGate(gate); err != nil {
				return info, fmt.Errorf("harness: %v", err)
			}
			if err := finish(p); err != nil {
				return info, err
			}
			if err := finish(q); err != nil {
				return info, err
			}
			k++
			continue
		}
		p, err := launch(k, s, "")
		if err != nil {
			return info, err
		}
		if err := finish(p); err != nil {
			return info, err
		}
	}
	if overlapped {
		info.NonTrivial = true
		info.Labels = append(info.Labels, "overlapping-executions")
	}
	for _, s := range c.Steps {
		info.Labels = append(info.Labels, "expect:"+expect(s))
	}
	return info, nil
}

const rule = "the real operator (VerifAssemble + Start) on a fake cluster with two scripted hooks in different queues; 1-5 executions triggered by injected schedule ticks, each with a generated script: exit code {0,1,2,127,SIGKILL} x each of metrics/patch/admission/conversion file {untouched, valid, truncated, wrong JSON type, deleted; metrics and patch also: a valid document followed by a stray closing bracket; patch also: a well-formed operation the API refuses}, optionally parked on a gate while the other hook runs; the operator process itself has the six variables set to foreign values; oracle from the hook's own log and the operator: cwd, six environment variables inside the temp dir, empty output files at start, unique file names across all executions, binding-context file == contexts of the task, outcome table (non-zero exit or malformed output -> failed and retried, nothing applied after a non-zero exit; exit 0 with valid outputs -> metric visible in the hook metric storage and patch applied to the cluster), temp directory empty after every execution. Non-trivial: an execution with a valid non-empty output file, or two overlapping executions."

func TestExec(t *testing.T) {
	ev.Main(t, ev.Spec[Case]{Property: "C12", Part: "exec", Rule: rule, Gen: gen, Run: runCase, Journal: true})
}
