package c12

import (
	"encoding/json"
	"fmt"
	"os"
	"testing"
	"time"

	"pgregory.net/rapid"

	"verif/internal/ev"
	"verif/internal/hcfg"
	"verif/internal/kit"
	"verif/internal/opkit"
	"verif/internal/vh"
)

// SameHookCase: one hook whose bindings live in different queues, so the same hook executes
// concurrently with itself. Real threads and processes: the schedule is sampled, not owned.
type SameHookCase struct {
	Queues int `json:"queues"` // 2-3 queues, one schedule binding each
	Rounds int `json:"rounds"` // rounds of simultaneous ticks
}

func genSameHook(t *rapid.T) SameHookCase {
	return SameHookCase{Queues: rapid.IntRange(2, 3).Draw(t, "queues"), Rounds: rapid.IntRange(10, 60).Draw(t, "rounds")}
}

func runSameHook(c SameHookCase) (ev.Info, error) {
	info := ev.Info{NonTrivial: true}
	env, err := opkit.New("c12c", kit.NewCluster("default"))
	if err != nil {
		return info, fmt.Errorf("harness: %v", err)
	}
	defer env.Close()
	crons := []string{"0 0 1 1 *", "0 0 2 1 *", "0 0 3 1 *"}
	d := hcfg.D{}
	for i := 0; i < c.Queues; i++ {
		d.Schedules = append(d.Schedules, hcfg.Sched{Name: fmt.Sprintf("tick%d", i), Crontab: crons[i], Queue: fmt.Sprintf("q%d", i)})
	}
	kit.Must(env.Tree.AddHook("h", 0o755, vh.Script{Config: d.JSON(), Rules: []vh.Rule{{Do: vh.Behaviour{SleepMs: 1}}}}))
	if err := env.Assemble(); err != nil {
		return info, fmt.Errorf("harness: assemble: %v", err)
	}
	env.Start()
	if !env.WaitIdle(3*time.Millisecond, 20*time.Second) {
		return info, fmt.Errorf("harness: operator did not become idle after start")
	}
	for r := 0; r < c.Rounds; r++ {
		for i := 0; i < c.Queues; i++ {
			env.Tick(crons[i])
		}
		if r%4 == 3 {
			env.WaitIdle(2*time.Millisecond, 20*time.Second)
		}
	}
	if !env.WaitIdle(10*time.Millisecond, 30*time.Second) {
		return info, fmt.Errorf("TIMING: operator did not become idle after %d rounds of concurrent executions", c.Rounds)
	}
	recs, _ := env.Tree.ReadLog()
	paths := map[string]string{}
	perBinding := map[string]int{}
	overlaps := 0
	type iv struct{ s, e int64 }
	var ivs []iv
	ends := map[int]int64{}
	for _, r := range recs {
		if r.Phase == "end" {
			ends[r.Seq] = r.T
		}
	}
	for _, r := range recs {
		if r.Phase != "start" {
			continue
		}
		ivs = append(ivs, iv{r.T, ends[r.Seq]})
		for _, n := range []string{"BINDING_CONTEXT_PATH", "METRICS_PATH", "CONVERSION_RESPONSE_PATH", "ADMISSION_RESPONSE_PATH", "KUBERNETES_PATCH_PATH"} {
			id := fmt.Sprintf("execution %d %s", r.Seq, n)
			if other, dup := paths[r.Env[n]]; dup {
				return info, fmt.Errorf("file %s was given to two executions: %s and %s", r.Env[n], other, id)
			}
			paths[r.Env[n]] = id
		}
		if r.Context == nil {
			return info, fmt.Errorf("execution %d: binding context file is not valid JSON: %q", r.Seq, r.RawCtx)
		}
		var arr []map[string]any
		_ = json.Unmarshal(r.Context, &arr)
		if len(arr) == 0 {
			return info, fmt.Errorf("execution %d: empty binding context", r.Seq)
		}
		b0, _ := arr[0]["binding"].(string)
		for _, m := range arr {
			if m["binding"] != b0 || m["type"] != "Schedule" {
				return info, fmt.Errorf("execution %d: contexts of different queues in one execution: %s", r.Seq, string(r.Context))
			}
			perBinding[b0]++
		}
	}
	for i := range ivs {
		for j := i + 1; j < len(ivs); j++ {
			if ivs[i].s < ivs[j].e && ivs[j].s < ivs[i].e {
				overlaps++
			}
		}
	}
	if overlaps > 0 {
		info.Labels = append(info.Labels, "overlapping-executions-of-one-hook")
	}
	for i := 0; i < c.Queues; i++ {
		if got := perBinding[fmt.Sprintf("tick%d", i)]; got != c.Rounds {
			return info, fmt.Errorf("binding tick%d: %d ticks were injected, the hook received %d contexts for it", i, c.Rounds, got)
		}
	}
	ents, _ := os.ReadDir(env.TmpDir)
	if len(ents) > 0 {
		return info, fmt.Errorf("%d temporary files left after all executions ended (first: %s)", len(ents), ents[0].Name())
	}
	return info, nil
}

const ruleSameHook = "one scripted hook with 2-3 schedule bindings in different queues; 10-60 rounds of simultaneous ticks so that the same hook executes concurrently with itself (real threads and processes, sampled); oracle: no file path is given to two executions, every execution's context file holds contexts of exactly one queue's binding, every injected tick arrives exactly once, the temp directory is empty at the end. Non-trivial: every case."

func TestSameHookConcurrent(t *testing.T) {
	ev.Main(t, ev.Spec[SameHookCase]{Property: "C12", Part: "samehook", Rule: ruleSameHook, Gen: genSameHook, Run: runSameHook, Journal: true})
}
