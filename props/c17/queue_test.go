package c17

import (
	"testing"

	"pgregory.net/rapid"

	"verif/internal/ev"
	"verif/internal/qset"
)

const ruleQ = "the C03 queue-set harness with a stop request (TaskQueueSet.Stop, or the end of the context the operator was created with: cancelled, or its deadline passed) at a generated point of the run: queues idle and empty, inside a handler, inside a (long) back-off wait after a failure, from the AfterHandle callback of a result (handler returned, next task not picked yet); tasks keep arriving after the request; oracle: starts after the request per queue <= 0 (queue was in a handler or in back-off) or <= 1 (idle queue may pick one task that arrives around the request), every worker reaches status stop once its handler returned, nothing starts afterwards, a queue created and started after the request terminates without running its task, WaitStopWithTimeout returns. Non-trivial: stop requested while some queue is non-empty."

func TestQueueStop(t *testing.T) {
	ev.Main(t, ev.Spec[qset.Case]{Property: "C17", Part: "queue", Rule: ruleQ, Gen: func(t *rapid.T) qset.Case { return qset.Gen(t, true) }, Run: qset.Run, Journal: true})
}
