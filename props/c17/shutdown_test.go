package c17

import (
	"fmt"
	"sync"
	"sync/atomic"
	"testing"
	"time"

	"k8s.io/apimachinery/pkg/runtime"
	clienttesting "k8s.io/client-go/testing"
	"pgregory.net/rapid"

	"verif/internal/ev"
	"verif/internal/hcfg"
	"verif/internal/kit"
	"verif/internal/opkit"
	"verif/internal/vh"
)

// Shutdown of the whole operator (ShellOperator.Shutdown, as SIGTERM triggers it) at generated points, with a
// backlog of tasks in a side queue: once shutdown is requested the side queue starts at most the task it had
// already picked, whatever the main queue is doing, and later ticks lead to no executions.

type SDCase struct {
	// Point: where the main queue is when shutdown is requested:
	//  "idle"          nothing is running in main
	//  "in-hook"       a hook execution of the main queue is parked on a gate
	//  "in-addmonitor" the EnableKubernetesBindings task of a late hook is inside AddMonitor, the API server does not answer its discovery request
	Point   string `json:"point"`
	Backlog int    `json:"backlog"`  // tick rounds for the side-queue hooks queued before the request
	SleepMs int    `json:"sleep_ms"` // duration of a side-queue execution
	// LateTicks: ticks injected after the request
	LateTicks int `json:"late_ticks"`
}

func genSD(t *rapid.T) SDCase {
	return SDCase{
		Point:     rapid.SampledFrom([]string{"idle", "in-hook", "in-addmonitor", "in-addmonitor"}).Draw(t, "point"),
		Backlog:   rapid.IntRange(6, 10).Draw(t, "backlog"),
		SleepMs:   rapid.SampledFrom([]int{10, 20, 30}).Draw(t, "sleep"),
		LateTicks: rapid.IntRange(0, 3).Draw(t, "late"),
	}
}

func runSD(c SDCase) (ev.Info, error) {
	info := ev.Info{NonTrivial: true, Labels: []string{"point:" + c.Point}}
	fc := kit.NewCluster("default")
	var hang atomic.Bool
	entered := make(chan struct{})
	release := make(chan struct{})
	var enteredOnce, releaseOnce sync.Once
	doRelease := func() { releaseOnce.Do(func() { close(release) }) }
	defer doRelease()
	fc.Discovery.PrependReactor("get", "resource", func(_ clienttesting.Action) (bool, runtime.Object, error) {
		if hang.Load() {
			enteredOnce.Do(func() { close(entered) })
			<-release
		}
		return false, nil, nil
	})
	env, err := opkit.New("c17s", fc)
	if err != nil {
		return info, fmt.Errorf("harness: %v", err)
	}
	defer func() {
		doRelease()
		env.OpenAllGates()
		env.Close()
	}()
	// two hooks share the side queue: their ticks alternate, so that the tasks are not combined
	side := func(name, crontab string) {
		d := hcfg.D{Schedules: []hcfg.Sched{{Name: "t", Crontab: crontab, Queue: "side"}}}
		kit.Must(env.Tree.AddHook(name, 0o755, vh.Script{Config: d.JSON(), Rules: []vh.Rule{{Do: vh.Behaviour{SleepMs: c.SleepMs}}}}))
	}
	side("side-a", "0 0 1 1 *")
	side("side-b", "0 0 2 1 *")
	// a hook of the main queue that can be parked
	dm := hcfg.D{Schedules: []hcfg.Sched{{Name: "m", Crontab: "0 0 3 1 *"}}}
	kit.Must(env.Tree.AddHook("mainhook", 0o755, vh.Script{Config: dm.JSON(), Rules: []vh.Rule{{Do: vh.Behaviour{Gate: "g0"}}}}))
	// a hook with a kubernetes binding, enabled last (name sorts last): its AddMonitor asks the API server
	dk := hcfg.D{Kube: []hcfg.Kube{{Name: "k", Kind: "ConfigMap", ApiVersion: "v1"}}}
	kit.Must(env.Tree.AddHook("zz-kube", 0o755, vh.Script{Config: dk.JSON()}))
	if err := env.Assemble(); err != nil {
		return info, fmt.Errorf("harness: assemble: %v", err)
	}
	if c.Point == "in-addmonitor" {
		hang.Store(true)
	}
	env.Start()
	switch c.Point {
	case "in-addmonitor":
		select {
		case <-entered:
		case <-time.After(20 * time.Second):
			return info, fmt.Errorf("harness: the discovery request of AddMonitor was not observed")
		}
	default:
		if !env.WaitIdle(5*time.Millisecond, 20*time.Second) {
			return info, fmt.Errorf("harness: operator did not become idle after start")
		}
	}
	if c.Point == "in-hook" {
		env.Tick("0 0 3 1 *")
		if _, ok := env.Tree.WaitLog(20*time.Second, func(rs []vh.Record) bool {
			for _, r := range rs {
				if r.Hook == "mainhook" && r.Phase == "start" {
					return true
				}
			}
			return false
		}); !ok {
			return info, fmt.Errorf("harness: main hook did not start")
		}
	}
	// the backlog of the side queue
	for i := 0; i < c.Backlog; i++ {
		env.Tick("0 0 1 1 *")
		env.Tick("0 0 2 1 *")
	}
	env.Tick("59 23 31 12 *")
	env.Tick("59 23 31 12 *")
	// wait until the side queue works on its backlog
	if _, ok := env.Tree.WaitLog(20*time.Second, func(rs []vh.Record) bool {
		for _, r := range rs {
			if (r.Hook == "side-a" || r.Hook == "side-b") && r.Phase == "start" {
				return true
			}
		}
		return false
	}); !ok {
		return info, fmt.Errorf("harness: side queue did not start working")
	}
	requestedAt := time.Now().UnixNano()
	done := make(chan struct{})
	go func() {
		env.Op.Shutdown()
		close(done)
	}()
	// the main queue stays where it is for a while after the request
	time.Sleep(time.Duration(c.SleepMs*4+180) * time.Millisecond)
	for i := 0; i < c.LateTicks; i++ {
		select {
		case env.Op.ScheduleManager.Ch() <- "0 0 1 1 *":
		case <-time.After(50 * time.Millisecond):
		}
	}
	time.Sleep(30 * time.Millisecond)
	recs, _ := env.Tree.ReadLog()
	after := 0
	total := 0
	for _, r := range recs {
		if (r.Hook == "side-a" || r.Hook == "side-b") && r.Phase == "start" {
			total++
			// (60ms of grace: the request itself takes a moment to reach the queues on a loaded machine)
			if r.T > requestedAt+int64(60*time.Millisecond) {
				after++
			}
		}
	}
	// let the main queue finish so that Shutdown can return
	doRelease()
	kit.Must(env.Tree.OpenGate("g0"))
	select {
	case <-done:
	case <-time.After(30 * time.Second):
		return info, fmt.Errorf("Shutdown did not return within 30s after the main queue's handler ended")
	}
	if after > 1 {
		return info, fmt.Errorf("OBSERVED: the side queue started %d executions after shutdown was requested (main queue: %s; %d executions in total, backlog %d tick rounds): it may only finish the task it had already picked", after, c.Point, total, c.Backlog)
	}
	// nothing runs after Shutdown returned
	n0 := len(recs)
	select {
	case env.Op.ScheduleManager.Ch() <- "0 0 2 1 *":
	case <-time.After(50 * time.Millisecond):
	}
	time.Sleep(20 * time.Millisecond)
	recs2, _ := env.Tree.ReadLog()
	for _, r := range recs2[n0:] {
		if r.Phase == "start" && r.Hook != "mainhook" && r.Hook != "zz-kube" {
			return info, fmt.Errorf("OBSERVED: hook %s was executed after Shutdown returned", r.Hook)
		}
	}
	return info, nil
}

const ruleSD = "the real operator with two hooks sharing a side queue (alternating ticks: 6-10 rounds queued as backlog, executions of 10-30ms), a hook of the main queue that can be parked on a gate and a hook with a kubernetes binding enabled last; ShellOperator.Shutdown is called while the main queue is idle, inside a parked hook execution, or inside AddMonitor of the EnableKubernetesBindings task with the (fake) API server not answering the discovery request; oracle from the hook processes' own timestamps: the side queue starts at most one execution later than 60ms after the request (the task it had picked), ticks after the request lead to no execution, Shutdown returns once the main queue's handler ended. Real threads (sampled); the counts are observed facts."

func TestShutdown(t *testing.T) {
	ev.Main(t, ev.Spec[SDCase]{Property: "C17", Part: "shutdown", Rule: ruleSD, Gen: genSD, Run: runSD, Journal: true})
}
