package c07

import (
	"context"
	"fmt"
	"strings"
	"testing"

	"github.com/deckhouse/deckhouse/pkg/log"
	bctx "github.com/flant/shell-operator/pkg/hook/binding_context"
	"github.com/flant/shell-operator/pkg/hook/task_metadata"
	htypes "github.com/flant/shell-operator/pkg/hook/types"
	shop "github.com/flant/shell-operator/pkg/shell-operator"
	"github.com/flant/shell-operator/pkg/task"
	"github.com/flant/shell-operator/pkg/task/queue"
	"pgregory.net/rapid"

	"verif/internal/ev"
	_ "verif/internal/qh"
)

type Ctx struct {
	Name  string `json:"n"`
	Group string `json:"g,omitempty"`
}

type TaskSpec struct {
	Hook    string   `json:"hook"`
	Type    string   `json:"type"`
	NoMeta  bool     `json:"nometa,omitempty"`
	Ctxs    []Ctx    `json:"ctxs,omitempty"`
	Monitor []string `json:"mon,omitempty"`
}

type Case struct {
	Tasks []TaskSpec `json:"tasks"`
	// Stop: indexes of tasks for which the caller's stopCombineFn returns true (nil function when empty):
	// merging ends at the first of them
	Stop []int `json:"stop,omitempty"`
	// Appends are tasks added with AddLast after the combine call returned... (see sched part)
}

var taskTypes = []string{"HookRun", "HookRun", "HookRun", "EnableKubernetesBindings", "EnableScheduleBindings", "Foreign"}

func gen(t *rapid.T) Case {
	n := rapid.IntRange(1, 14).Draw(t, "n")
	c := Case{}
	ctxN := 0
	monN := 0
	// biased towards runs: next task repeats hook/type of the previous one with prob 2/3
	var prev *TaskSpec
	for i := 0; i < n; i++ {
		ts := TaskSpec{}
		if prev != nil && rapid.IntRange(0, 2).Draw(t, "same") > 0 {
			ts.Hook, ts.Type = prev.Hook, prev.Type
		} else {
			ts.Hook = rapid.SampledFrom([]string{"h1", "h2", "h3"}).Draw(t, "hook")
			ts.Type = rapid.SampledFrom(taskTypes).Draw(t, "type")
		}
		if rapid.IntRange(0, 14).Draw(t, "nometa") == 0 {
			ts.NoMeta = true
		}
		k := rapid.IntRange(1, 3).Draw(t, "nctx")
		for j := 0; j < k; j++ {
			ctxN++
			ts.Ctxs = append(ts.Ctxs, Ctx{Name: fmt.Sprintf("c%d", ctxN), Group: rapid.SampledFrom([]string{"", "", "g1", "g1", "g2"}).Draw(t, "group")})
		}
		m := rapid.IntRange(0, 2).Draw(t, "nmon")
		for j := 0; j < m; j++ {
			monN++
			ts.Monitor = append(ts.Monitor, fmt.Sprintf("m%d", monN))
		}
		c.Tasks = append(c.Tasks, ts)
		prev = &c.Tasks[len(c.Tasks)-1]
	}
	if n > 1 && rapid.IntRange(0, 2).Draw(t, "withStop") == 0 {
		c.Stop = rapid.SliceOfNDistinct(rapid.IntRange(1, n-1), 1, 3, func(i int) int { return i }).Draw(t, "stop")
	}
	return c
}

// stopFn builds the caller's stopCombineFn for a case.
func stopFn(c Case, tasks []task.Task) func(task.Task) bool {
	if len(c.Stop) == 0 {
		return nil
	}
	return func(t task.Task) bool {
		for _, i := range c.Stop {
			if i < len(tasks) && tasks[i] == t {
				return true
			}
		}
		return false
	}
}

func stopped(c Case, i int) bool {
	for _, x := range c.Stop {
		if x == i {
			return true
		}
	}
	return false
}

func build(c Case) (*shop.ShellOperator, *queue.TaskQueue, []task.Task) {
	op := shop.NewShellOperator(context.Background(), shop.WithLogger(log.NewNop()))
	tqs := queue.NewTaskQueueSet()
	tqs.WithContext(context.Background())
	tqs.NewNamedQueue("main", func(task.Task) queue.TaskResult { return queue.TaskResult{} })
	op.TaskQueues = tqs
	q := tqs.GetMain()
	var tasks []task.Task
	for i, ts := range c.Tasks {
		_, _, bt := buildOne(ts, fmt.Sprintf("t%d", i))
		q.AddLast(bt)
		tasks = append(tasks, bt)
	}
	return op, q, tasks
}

func buildOne(ts TaskSpec, id string) (string, string, task.Task) {
	bt := task.NewTask(task.TaskType(ts.Type)).WithQueueName("main")
	bt.Id = id
	if !ts.NoMeta {
		var bcs []bctx.BindingContext
		for _, cs := range ts.Ctxs {
			bc := bctx.BindingContext{Binding: cs.Name}
			bc.Metadata.Group = cs.Group
			bc.Metadata.BindingType = htypes.Schedule
			bcs = append(bcs, bc)
		}
		bt.WithMetadata(task_metadata.HookMetadata{HookName: ts.Hook, BindingContext: bcs, MonitorIDs: append([]string(nil), ts.Monitor...)})
	}
	return ts.Hook, ts.Type, bt
}

type expect struct {
	isNil   bool
	ctxs    []Ctx
	mons    []string
	remain  []int
	nMerged int
}

// model is the reference written from the statement of C07.
func model(c Case) expect {
	e := expect{}
	all := func() []int {
		r := []int{}
		for i := range c.Tasks {
			r = append(r, i)
		}
		return r
	}
	head := c.Tasks[0]
	if head.NoMeta {
		e.isNil, e.remain = true, all()
		return e
	}
	merged := map[int]bool{}
	for i := 1; i < len(c.Tasks); i++ {
		t := c.Tasks[i]
		if t.NoMeta || t.Hook != head.Hook || t.Type != head.Type || stopped(c, i) {
			break
		}
		merged[i] = true
	}
	if len(merged) == 0 {
		e.isNil, e.remain = true, all()
		return e
	}
	e.nMerged = len(merged)
	var cat []Ctx
	cat = append(cat, head.Ctxs...)
	e.mons = append(e.mons, head.Monitor...)
	for i := 1; i < len(c.Tasks); i++ {
		if merged[i] {
			cat = append(cat, c.Tasks[i].Ctxs...)
			e.mons = append(e.mons, c.Tasks[i].Monitor...)
		} else {
			e.remain = append(e.remain, i)
		}
	}
	e.remain = append([]int{0}, e.remain...)
	for i, x := range cat {
		if x.Group != "" && i+1 < len(cat) && cat[i+1].Group == x.Group {
			continue
		}
		e.ctxs = append(e.ctxs, x)
	}
	return e
}

func observe(res *shop.CombineResult) ([]Ctx, []string) {
	var cs []Ctx
	for _, bc := range res.BindingContexts {
		cs = append(cs, Ctx{Name: bc.Binding, Group: bc.Metadata.Group})
	}
	return cs, res.MonitorIDs
}

func checkTwin(name string, c Case, e expect, call func(op *shop.ShellOperator, q *queue.TaskQueue, t task.Task, stop func(task.Task) bool) *shop.CombineResult) error {
	op, q, tasks := build(c)
	res := call(op, q, tasks[0], stopFn(c, tasks))
	if e.isNil != (res == nil) {
		return fmt.Errorf("%s: result nil=%v, expected nil=%v", name, res == nil, e.isNil)
	}
	if res != nil {
		cs, ms := observe(res)
		if fmt.Sprint(cs) != fmt.Sprint(e.ctxs) {
			return fmt.Errorf("%s: hook would receive contexts %v, expected %v", name, cs, e.ctxs)
		}
		if strings.Join(ms, ",") != strings.Join(e.mons, ",") {
			return fmt.Errorf("%s: monitor ids %v, expected %v", name, ms, e.mons)
		}
	}
	var remain []task.Task
	q.Iterate(func(t task.Task) { remain = append(remain, t) })
	if len(remain) != len(e.remain) {
		return fmt.Errorf("%s: %d tasks remain in the queue, expected %d (indices %v)", name, len(remain), len(e.remain), e.remain)
	}
	for i, idx := range e.remain {
		if remain[i] != tasks[idx] {
			return fmt.Errorf("%s: queue position %d holds task %s, expected t%d", name, i, remain[i].GetId(), idx)
		}
	}
	return nil
}

func runCase(c Case) (ev.Info, error) {
	info := ev.Info{}
	if len(c.Tasks) == 0 {
		return info, nil
	}
	e := model(c)
	if err := checkTwin("exported", c, e, func(op *shop.ShellOperator, q *queue.TaskQueue, t task.Task, stop func(task.Task) bool) *shop.CombineResult {
		return op.CombineBindingContextForHook(q, t, stop)
	}); err != nil {
		return info, err
	}
	if err := checkTwin("internal", c, e, func(op *shop.ShellOperator, q *queue.TaskQueue, t task.Task, stop func(task.Task) bool) *shop.CombineResult {
		return op.VerifCombine(q, t, stop)
	}); err != nil {
		return info, err
	}
	if e.nMerged > 0 && len(e.remain) > 1 {
		info.NonTrivial = true
	}
	if len(c.Stop) > 0 {
		info.Labels = append(info.Labels, "with-stopCombineFn")
	}
	if e.nMerged > 0 {
		info.Labels = append(info.Labels, "merged")
		// interleaved groups g1,g2,g1
		seen := map[string]bool{}
		last := ""
		for _, x := range e.ctxs {
			if x.Group != "" && x.Group != last && seen[x.Group] {
				info.Labels = append(info.Labels, "interleaved-groups")
				break
			}
			if x.Group != "" {
				seen[x.Group] = true
			}
			last = x.Group
		}
		if len(e.mons) > 1 {
			info.Labels = append(info.Labels, "monitor-ids-merged")
		}
	} else {
		info.Labels = append(info.Labels, "nothing-to-merge")
	}
	return info, nil
}

const rule = "queue layouts of 1-14 tasks over 3 hooks, task types {HookRun, EnableKubernetesBindings, EnableScheduleBindings, foreign}, 1-3 uniquely named binding contexts per task with groups from {none,g1,g2}, 0-2 monitor ids, tasks without metadata, in a third of the layouts a stopCombineFn that rejects 1-3 of the tasks (merging ends at the first rejected one); both combine twins run on identical copies and are compared with a reference model of merge+compaction and with the expected queue remainder (task identity and order). Non-trivial: at least one task merged and at least one other task remains behind the head. Distinct = distinct layouts."

func TestCombine(t *testing.T) {
	ev.Main(t, ev.Spec[Case]{Property: "C07", Part: "combine", Rule: rule, Gen: gen, Run: runCase})
}
