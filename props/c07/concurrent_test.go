package c07

import (
	"fmt"
	"testing"
	"time"

	shop "github.com/flant/shell-operator/pkg/shell-operator"
	"github.com/flant/shell-operator/pkg/task"
	"github.com/flant/shell-operator/pkg/task/queue"
	"pgregory.net/rapid"

	"verif/internal/ev"
	"verif/internal/sched"
)

// ConcCase: tasks are appended to the queue while the combine step is between its scan and its filter.
type ConcCase struct {
	Layout   Case       `json:"layout"`
	Appended []TaskSpec `json:"appended"`
	Twin     string     `json:"twin"` // exported internal
	// During: "" = the tasks are appended in the gap between scan and filter pass; "filter-pass" = the appender
	// calls AddLast while the filter pass is running (it has to wait for the queue's lock)
	During string `json:"during,omitempty"`
}

func genConc(t *rapid.T) ConcCase {
	c := ConcCase{Layout: gen(t), Twin: rapid.SampledFrom([]string{"exported", "internal"}).Draw(t, "twin")}
	c.During = rapid.SampledFrom([]string{"", "filter-pass"}).Draw(t, "during")
	n := rapid.IntRange(1, 4).Draw(t, "nappend")
	for i := 0; i < n; i++ {
		ts := TaskSpec{Hook: rapid.SampledFrom([]string{"h1", "h2", "h3"}).Draw(t, "ahook"), Type: rapid.SampledFrom(taskTypes).Draw(t, "atype")}
		if rapid.IntRange(0, 2).Draw(t, "samehook") > 0 && len(c.Layout.Tasks) > 0 {
			ts.Hook, ts.Type = c.Layout.Tasks[0].Hook, c.Layout.Tasks[0].Type
		}
		ts.Ctxs = []Ctx{{Name: fmt.Sprintf("late%d", i), Group: rapid.SampledFrom([]string{"", "g1"}).Draw(t, "agroup")}}
		c.Appended = append(c.Appended, ts)
	}
	return c
}

func runConc(c ConcCase) (ev.Info, error) {
	info := ev.Info{}
	if len(c.Layout.Tasks) == 0 {
		return info, nil
	}
	e := model(c.Layout)
	op, q, tasks := build(c.Layout)
	s := sched.New()
	defer s.Close()
	var res *shop.CombineResult
	comb := s.Spawn("COMBINE", func() {
		if c.Twin == "exported" {
			res = op.CombineBindingContextForHook(q, tasks[0], stopFn(c.Layout, tasks))
		} else {
			res = op.VerifCombine(q, tasks[0], stopFn(c.Layout, tasks))
		}
	})
	var late []task.Task
	appendLate := func() {
		for i, ts := range c.Appended {
			_, _, lt := buildOne(ts, fmt.Sprintf("late-%d", i))
			q.AddLast(lt)
			late = append(late, lt)
		}
	}
	parked := s.Step(comb)
	if parked && comb.Point == "combine.afterScan" && c.During == "filter-pass" {
		// into the filter pass: the step parks inside its first predicate call, holding the queue's lock
		if s.Step(comb) && comb.Point == "combine.inFilter" {
			app := s.Spawn("APPEND", appendLate)
			st := s.StepB(app)
			for !comb.Done {
				s.StepB(comb)
			}
			if st == sched.Blocked {
				info.Labels = append(info.Labels, "appender-waited-for-the-filter-pass")
				if s.WaitUnblocked(app, 10*time.Second) != sched.Done {
					s.Finish(app)
				}
			} else if !app.Done {
				s.Finish(app)
			}
		} else {
			s.Finish(comb)
			appendLate()
		}
	} else if parked && comb.Point == "combine.afterScan" {
		appendLate()
		info.Labels = append(info.Labels, "appended-between-scan-and-filter")
		s.Finish(comb)
	} else {
		// the head has no metadata: combine returns before scanning
		s.Finish(comb)
		appendLate()
	}
	if comb.Panic != "" {
		return info, fmt.Errorf("combine panicked: %s", comb.Panic)
	}
	if e.isNil != (res == nil) {
		return info, fmt.Errorf("%s: result nil=%v, expected nil=%v", c.Twin, res == nil, e.isNil)
	}
	if res != nil {
		cs, _ := observe(res)
		if fmt.Sprint(cs) != fmt.Sprint(e.ctxs) {
			return info, fmt.Errorf("%s: hook would receive contexts %v, expected %v (tasks appended during the combination must not change it)", c.Twin, cs, e.ctxs)
		}
	}
	var remain []task.Task
	q.Iterate(func(t task.Task) { remain = append(remain, t) })
	var want []task.Task
	for _, idx := range e.remain {
		want = append(want, tasks[idx])
	}
	want = append(want, late...)
	if len(remain) != len(want) {
		return info, fmt.Errorf("%s: %d tasks remain in the queue %v, expected %d: the original remainder followed by the %d tasks appended during the combination", c.Twin, len(remain), taskIDs(remain), len(want), len(late))
	}
	for i := range want {
		if remain[i] != want[i] {
			return info, fmt.Errorf("%s: queue position %d holds %s, expected %s (queue %v)", c.Twin, i, remain[i].GetId(), want[i].GetId(), taskIDs(remain))
		}
	}
	info.NonTrivial = e.nMerged > 0
	return info, nil
}

func taskIDs(ts []task.Task) []string {
	var out []string
	for _, t := range ts {
		out = append(out, t.GetId())
	}
	return out
}

var _ = queue.Success

const ruleConc = "the C07 layouts with the combine step run as an actor of the cooperative scheduler: it parks at the yield between its scan (Iterate) and its removal pass (Filter), 1-4 tasks (same hook/type as the head with probability 2/3) are appended with AddLast, then it finishes; in half of the cases the appender instead calls AddLast while the filter pass is running and has to wait for the queue's lock; oracle: contexts are those of the original layout, the queue holds the original remainder followed by every appended task, in order. Non-trivial: at least one task was merged."

func TestConcurrentAppend(t *testing.T) {
	ev.Main(t, ev.Spec[ConcCase]{Property: "C07", Part: "concurrent", Rule: ruleConc, Gen: genConc, Run: runConc})
}
