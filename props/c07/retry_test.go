package c07

import (
	"encoding/json"
	"fmt"
	"strings"
	"testing"
	"time"

	"pgregory.net/rapid"

	"verif/internal/ev"
	"verif/internal/hcfg"
	"verif/internal/kit"
	"verif/internal/opkit"
	"verif/internal/vh"
)

// The combined binding contexts survive a failed run: the retry gets the same array the failed run got
// (the merged tasks are gone from the queue, the head task is the only holder of their contexts).

type RBind struct {
	Name  string `json:"name"`
	Group string `json:"group,omitempty"`
}

type RCase struct {
	Binds []RBind  `json:"binds"`
	Ticks []string `json:"ticks"` // binding names in arrival order
	Fails int      `json:"fails"` // the first executions of the hook fail this many times
	// Late: ticks that arrive while the queue sleeps in the back-off after the first failure (bindings without
	// group only): the retry takes them in
	Late []string `json:"late,omitempty"`
}

var retryCrontabs = map[string]string{"s0": "0 0 1 1 *", "s1": "0 0 2 1 *", "s2": "0 0 3 1 *", "blk": "0 0 9 1 *"}

func genRetry(t *rapid.T) RCase {
	c := RCase{Fails: rapid.IntRange(1, 2).Draw(t, "fails")}
	nb := rapid.IntRange(2, 3).Draw(t, "nb")
	var names []string
	for i := 0; i < nb; i++ {
		b := RBind{Name: fmt.Sprintf("s%d", i), Group: rapid.SampledFrom([]string{"", "", "g1"}).Draw(t, "group")}
		c.Binds = append(c.Binds, b)
		names = append(names, b.Name)
	}
	for i, n := 0, rapid.IntRange(2, 6).Draw(t, "nt"); i < n; i++ {
		c.Ticks = append(c.Ticks, rapid.SampledFrom(names).Draw(t, "tick"))
	}
	if rapid.Bool().Draw(t, "late") {
		for i := range c.Binds {
			c.Binds[i].Group = ""
		}
		for i, n := 0, rapid.IntRange(1, 3).Draw(t, "nlate"); i < n; i++ {
			c.Late = append(c.Late, rapid.SampledFrom(names).Draw(t, "ltick"))
		}
	}
	return c
}

func runRetry(c RCase) (ev.Info, error) {
	info := ev.Info{}
	env, err := opkit.New("c07r", kit.NewCluster("default"))
	if err != nil {
		return info, fmt.Errorf("harness: %v", err)
	}
	defer env.Close()
	d := hcfg.D{}
	for _, b := range c.Binds {
		d.Schedules = append(d.Schedules, hcfg.Sched{Name: b.Name, Crontab: retryCrontabs[b.Name], Group: b.Group})
	}
	kit.Must(env.Tree.AddHook("h", 0o755, vh.Script{Config: d.JSON(), Rules: []vh.Rule{{Times: c.Fails, Do: vh.Behaviour{Exit: 1}}}}))
	dblk := hcfg.D{Schedules: []hcfg.Sched{{Name: "blk", Crontab: retryCrontabs["blk"]}}}
	kit.Must(env.Tree.AddHook("zblk", 0o755, vh.Script{Config: dblk.JSON(), Rules: []vh.Rule{{Do: vh.Behaviour{Gate: "g0"}}}}))
	if err := env.Assemble(); err != nil {
		return info, fmt.Errorf("harness: assemble: %v", err)
	}
	env.Start()
	if !env.WaitIdle(5*time.Millisecond, 20*time.Second) {
		return info, fmt.Errorf("harness: operator did not become idle after start")
	}
	env.Tick(retryCrontabs["blk"])
	if _, ok := env.Tree.WaitLog(20*time.Second, func(rs []vh.Record) bool {
		for _, r := range rs {
			if r.Hook == "zblk" && r.Phase == "start" {
				return true
			}
		}
		return false
	}); !ok {
		return info, fmt.Errorf("harness: blocker did not start")
	}
	for _, tk := range c.Ticks {
		env.Tick(retryCrontabs[tk])
	}
	env.Tick("59 23 31 12 *")
	env.Tick("59 23 31 12 *")
	if len(c.Late) > 0 {
		// a back-off long enough for the late ticks to be queued before the retry
		if q := env.Op.TaskQueues.GetByName("main"); q != nil {
			q.ExponentialBackoffFn = func(int) time.Duration { return 400 * time.Millisecond }
		}
	}
	kit.Must(env.Tree.OpenGate("g0"))
	if len(c.Late) > 0 {
		if _, ok := env.Tree.WaitLog(20*time.Second, func(rs []vh.Record) bool {
			for _, r := range rs {
				if r.Hook == "h" && r.Phase == "end" {
					return true
				}
			}
			return false
		}); !ok {
			return info, fmt.Errorf("harness: the first execution of the hook did not end")
		}
		for _, tk := range c.Late {
			env.Tick(retryCrontabs[tk])
		}
		env.Tick("59 23 31 12 *")
		env.Tick("59 23 31 12 *")
		info.Labels = append(info.Labels, "ticks-during-back-off")
	}
	if !env.WaitIdle(10*time.Millisecond, 40*time.Second) {
		return info, fmt.Errorf("harness: operator did not become idle at the end")
	}
	recs, _ := env.Tree.ReadLog()
	var runs []string
	var exits []int
	for _, r := range recs {
		if r.Hook != "h" || r.Phase != "start" {
			continue
		}
		var arr []map[string]any
		_ = json.Unmarshal(r.Context, &arr)
		var names []string
		for _, m := range arr {
			names = append(names, fmt.Sprintf("%v/%v", m["binding"], m["type"]))
		}
		runs = append(runs, strings.Join(names, ","))
		exits = append(exits, r.Exit)
	}
	if len(runs) < c.Fails+1 {
		return info, fmt.Errorf("the hook was executed %d times, expected its first execution to fail %d times and to be retried", len(runs), c.Fails)
	}
	if strings.Count(runs[0], ",") > 0 {
		info.NonTrivial = true
	}
	for i := 1; i <= c.Fails; i++ {
		if exits[i-1] == 0 {
			break
		}
		want := runs[0]
		if i == 1 {
			for _, tk := range c.Late {
				want += "," + tk + "/Schedule"
			}
		} else if len(c.Late) > 0 {
			want = runs[1]
		}
		if runs[i] != want {
			return info, fmt.Errorf("the failed execution received the contexts [%s], its retry (attempt %d) received [%s], expected [%s]: the retry carries the combined contexts of the failed run plus those of the tasks queued behind it meanwhile", runs[0], i+1, runs[i], want)
		}
	}
	return info, nil
}

const ruleRetry = "the real operator: a hook with 2-3 schedule bindings (groups none/g1) in the main queue, 2-6 ticks piled up behind a parked blocker so that they are combined into one execution, which fails 1-2 times; in half of the cases 1-3 further ticks arrive during the (lengthened) back-off; oracle: every retry receives exactly the binding contexts (binding/type sequence) of the failed execution, followed by those of the tasks queued behind it meanwhile. Non-trivial: the failed execution carried >= 2 contexts."

func TestRetryKeepsContexts(t *testing.T) {
	ev.Main(t, ev.Spec[RCase]{Property: "C07", Part: "retry", Rule: ruleRetry, Gen: genRetry, Run: runRetry, Journal: true})
}
