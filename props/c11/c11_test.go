package c11

import (
	"context"
	"fmt"
	"os"
	"sort"
	"strings"
	"testing"

	"github.com/deckhouse/deckhouse/pkg/log"
	"github.com/flant/shell-operator/pkg/hook/task_metadata"
	schedulemanager "github.com/flant/shell-operator/pkg/schedule_manager"
	smtypes "github.com/flant/shell-operator/pkg/schedule_manager/types"
	"github.com/flant/shell-operator/pkg/task"
	"github.com/flant/shell-operator/pkg/task/queue"
	"pgregory.net/rapid"

	"verif/internal/ev"
	"verif/internal/hcfg"
	"verif/internal/kit"
	"verif/internal/opkit"
	"verif/internal/vh"
)

// ---------- part 1: reference counting ----------

type RCOp struct {
	K       string `json:"k"` // add remove
	Crontab string `json:"crontab"`
	ID      string `json:"id"`
}

type RCCase struct {
	Running bool   `json:"running"` // cron started before the operations (as in production) or not
	Ops     []RCOp `json:"ops"`
}

// far-away crontabs: never fire by themselves during a case
var crontabs = []string{"0 0 1 1 *", "0 0 2 1 *", "30 4 1 2 *", "*/5 0 3 3 *", "0 12 4 4 1"}

// spelled: the pool for hooks and ticks also holds other spellings of the same schedules (doubled, leading and
// trailing blanks): a crontab is identified by its string, every spelling is a crontab of its own
var spelled = []string{"0 0 1 1 *", "0 0 2 1 *", "30 4 1 2 *", "0  0 1 1 *", " 0 0 2 1 *", "0 0 1 1 * ", "*/5 0 3 3 *"}
var ids = []string{"i1", "i2", "i3", "i4", "i5", "i6"}

func genRC(t *rapid.T) RCCase {
	c := RCCase{Running: rapid.Bool().Draw(t, "running")}
	n := rapid.IntRange(1, 30).Draw(t, "n")
	for i := 0; i < n; i++ {
		c.Ops = append(c.Ops, RCOp{
			K:       rapid.SampledFrom([]string{"add", "remove"}).Draw(t, "k"),
			Crontab: rapid.SampledFrom(append(append([]string{}, crontabs[:3]...), spelled[3:5]...)).Draw(t, "crontab"),
			ID:      rapid.SampledFrom(ids[:3]).Draw(t, "id"),
		})
	}
	return c
}

func runRC(c RCCase) (ev.Info, error) {
	info := ev.Info{}
	ctx, cancel := context.WithCancel(context.Background())
	defer cancel()
	sm := schedulemanager.NewScheduleManager(ctx, log.NewNop())
	if c.Running {
		sm.Start()
		info.Labels = append(info.Labels, "cron-running")
	}
	model := map[string]map[string]bool{}
	shared := map[string]bool{}
	for step, op := range c.Ops {
		e := smtypes.ScheduleEntry{Crontab: op.Crontab, Id: op.ID}
		switch op.K {
		case "add":
			sm.Add(e)
			if model[op.Crontab] == nil {
				model[op.Crontab] = map[string]bool{}
			}
			model[op.Crontab][op.ID] = true
			if len(model[op.Crontab]) >= 2 {
				shared[op.Crontab] = true
			}
		case "remove":
			sm.Remove(e)
			if model[op.Crontab] != nil {
				delete(model[op.Crontab], op.ID)
				if len(model[op.Crontab]) == 0 {
					delete(model, op.Crontab)
					if shared[op.Crontab] {
						info.NonTrivial = true
					}
				}
			}
		}
		want := kit.SortedKeys(model)
		got := sm.VerifFireAll()
		sort.Strings(got)
		if fmt.Sprint(got) != fmt.Sprint(want) {
			return info, fmt.Errorf("step %d (%s %s %s): firing every registered cron entry once produces ticks %v, expected exactly one per crontab with a registered binding: %v", step, op.K, op.Crontab, op.ID, got, want)
		}
	}
	return info, nil
}

const ruleRC = "histories of 1-30 Add/Remove of (crontab,id) pairs over 5 crontab strings (two of them re-spellings with extra blanks) and 3 ids (repeats, removal of unknown pairs, re-adds) on the real schedule manager, with the embedded cron running or not; after every step every registered cron entry is fired once through a tag-guarded accessor and the ticks must be exactly one per crontab that has a registered id. Non-trivial: a crontab shared by >= 2 ids was later fully removed."

func TestRefCount(t *testing.T) {
	ev.Main(t, ev.Spec[RCCase]{Property: "C11", Part: "refcount", Rule: ruleRC, Gen: genRC, Run: runRC})
}

// ---------- part 2: tick -> tasks ----------

type HookD struct {
	Name string `json:"name"`
	D    hcfg.D `json:"config"`
}

type TickStep struct {
	K       string `json:"k"` // enable disable tick
	Hook    int    `json:"hook,omitempty"`
	Crontab string `json:"crontab,omitempty"`
}

type TickCase struct {
	Hooks []HookD    `json:"hooks"`
	Steps []TickStep `json:"steps"`
}

var queues = []string{"", "", "q1", "q2"}

func genTick(t *rapid.T) TickCase {
	c := TickCase{}
	nh := rapid.IntRange(1, 4).Draw(t, "nh")
	for h := 0; h < nh; h++ {
		d := hcfg.D{}
		nk := rapid.IntRange(0, 2).Draw(t, "nk")
		for k := 0; k < nk; k++ {
			d.Kube = append(d.Kube, hcfg.Kube{Name: fmt.Sprintf("k%d", k), Kind: "ConfigMap", Group: rapid.SampledFrom([]string{"", "g1", "g2"}).Draw(t, "kgroup")})
		}
		ns := rapid.IntRange(1, 4).Draw(t, "ns")
		for s := 0; s < ns; s++ {
			sc := hcfg.Sched{Crontab: rapid.SampledFrom(spelled[:6]).Draw(t, "crontab")}
			if rapid.IntRange(0, 4).Draw(t, "named") > 0 {
				sc.Name = fmt.Sprintf("s%d", s)
			}
			sc.Queue = rapid.SampledFrom(queues).Draw(t, "queue")
			sc.Group = rapid.SampledFrom([]string{"", "", "g1", "g2"}).Draw(t, "group")
			if rapid.Bool().Draw(t, "af") {
				sc.AllowFailure = hcfg.B(rapid.Bool().Draw(t, "afv"))
			}
			for _, k := range d.Kube {
				if rapid.IntRange(0, 2).Draw(t, "inc") == 0 {
					sc.Includes = append(sc.Includes, k.Name)
				}
			}
			d.Schedules = append(d.Schedules, sc)
		}
		c.Hooks = append(c.Hooks, HookD{Name: fmt.Sprintf("h%d", h), D: d})
	}
	n := rapid.IntRange(1, 14).Draw(t, "nsteps")
	for i := 0; i < n; i++ {
		k := rapid.SampledFrom([]string{"enable", "enable", "disable", "tick", "tick", "tick"}).Draw(t, "k")
		st := TickStep{K: k}
		if k == "tick" {
			st.Crontab = rapid.SampledFrom(spelled).Draw(t, "tc")
		} else {
			st.Hook = rapid.IntRange(0, nh-1).Draw(t, "h")
		}
		c.Steps = append(c.Steps, st)
	}
	return c
}

func taskSig(queueName string, t task.Task) string {
	m := task_metadata.HookMetadataAccessor(t)
	inc := []string{}
	group := ""
	bname := ""
	btype := ""
	if len(m.BindingContext) == 1 {
		inc = hcfg.SortedSet(m.BindingContext[0].Metadata.IncludeSnapshots)
		group = m.BindingContext[0].Metadata.Group
		bname = m.BindingContext[0].Binding
		btype = string(m.BindingContext[0].Metadata.BindingType)
	}
	return fmt.Sprintf("queue=%s taskQueue=%s type=%s hook=%s binding=%s/%s group=%s/%s allowFailure=%v includes=%v bindingType=%s/%s nctx=%d",
		queueName, t.GetQueueName(), t.GetType(), m.HookName, m.Binding, bname, m.Group, group, m.AllowFailure, inc, m.BindingType, btype, len(m.BindingContext))
}

func runTick(c TickCase) (ev.Info, error) {
	info := ev.Info{}
	env, err := opkit.New("c11", kit.NewCluster("default"))
	if err != nil {
		return info, fmt.Errorf("harness: %v", err)
	}
	defer env.Close()
	for _, h := range c.Hooks {
		if err := env.Tree.AddHook(h.Name, 0o755, vh.Script{Config: h.D.JSON()}); err != nil {
			return info, fmt.Errorf("harness: %v", err)
		}
	}
	if err := env.Assemble(); err != nil {
		return info, fmt.Errorf("harness: assemble: %v", err)
	}
	op := env.Op
	sm, ok := op.ScheduleManager.(interface {
		VerifFire(string) bool
		VerifCronEntryCount() int
	})
	if !ok {
		return info, fmt.Errorf("harness: schedule manager has no verif accessors")
	}
	// queues exist but no worker runs: tasks stay where the events handler puts them
	for _, qn := range []string{"main", "q1", "q2"} {
		op.TaskQueues.NewNamedQueue(qn, func(task.Task) queue.TaskResult { return queue.TaskResult{Status: queue.Success} })
	}
	op.ManagerEventsHandler.Start()
	enabled := map[int]bool{}
	allQueues := func() map[string][]task.Task {
		out := map[string][]task.Task{}
		for _, qn := range []string{"main", "q1", "q2"} {
			out[qn] = env.QueueTasks(qn)
		}
		return out
	}
	flush := func() {
		// two ticks of a crontab nobody uses: when the second send returns, every earlier tick is fully handled
		env.Tick("59 23 31 12 *")
		env.Tick("59 23 31 12 *")
	}
	sharedTick := false
	for step, st := range c.Steps {
		switch st.K {
		case "enable":
			if st.Hook < len(c.Hooks) {
				op.HookManager.GetHook(c.Hooks[st.Hook].Name).HookController.EnableScheduleBindings()
				enabled[st.Hook] = true
			}
		case "disable":
			if st.Hook < len(c.Hooks) {
				op.HookManager.GetHook(c.Hooks[st.Hook].Name).HookController.DisableScheduleBindings()
				delete(enabled, st.Hook)
			}
		case "tick":
			before := allQueues()
			// the tick goes through the schedule manager: the job registered for the crontab is run once,
			// exactly as the cron library does at its time; nothing fires when no job is registered
			want1 := false
			for hi, h := range c.Hooks {
				if enabled[hi] {
					for _, sc := range h.D.Schedules {
						if sc.Crontab == st.Crontab {
							want1 = true
						}
					}
				}
			}
			fired := sm.VerifFire(st.Crontab)
			if fired != want1 {
				return info, fmt.Errorf("step %d: crontab %q registered in the schedule manager = %v, but enabled bindings with that crontab exist = %v", step, st.Crontab, fired, want1)
			}
			if n, wantN := sm.VerifCronEntryCount(), len(distinctEnabled(c, enabled)); n != wantN {
				return info, fmt.Errorf("step %d: %d cron entries are registered, %d distinct crontabs have enabled bindings", step, n, wantN)
			}
			flush()
			after := allQueues()
			var got, want []string
			for qn, ts := range after {
				nb := len(before[qn])
				if len(ts) < nb {
					return info, fmt.Errorf("step %d: queue %s shrank", step, qn)
				}
				for i := 0; i < nb; i++ {
					if ts[i] != before[qn][i] {
						return info, fmt.Errorf("step %d: queue %s: existing tasks were reordered by a tick", step, qn)
					}
				}
				for _, t := range ts[nb:] {
					got = append(got, taskSig(qn, t))
				}
			}
			nb := 0
			for hi, h := range c.Hooks {
				if !enabled[hi] {
					continue
				}
				for _, sc := range h.D.Schedules {
					if sc.Crontab != st.Crontab {
						continue
					}
					nb++
					af := sc.AllowFailure != nil && *sc.AllowFailure
					qn := hcfg.QueueName(sc.Queue)
					want = append(want, fmt.Sprintf("queue=%s taskQueue=%s type=HookRun hook=%s binding=%s/%s group=%s/%s allowFailure=%v includes=%v bindingType=schedule/schedule nctx=1",
						qn, qn, h.Name, hcfg.SchedName(sc), hcfg.SchedName(sc), sc.Group, sc.Group, af, h.D.EffectiveIncludes(sc.Includes, sc.Group)))
				}
			}
			if nb >= 2 {
				sharedTick = true
			}
			sort.Strings(got)
			sort.Strings(want)
			if strings.Join(got, "\n") != strings.Join(want, "\n") {
				return info, fmt.Errorf("step %d: tick %q produced tasks\n  %s\nexpected exactly one per enabled binding with that crontab:\n  %s", step, st.Crontab, strings.Join(got, "\n  "), strings.Join(want, "\n  "))
			}
		}
	}
	info.NonTrivial = sharedTick
	return info, nil
}

const ruleTick = "1-4 generated hooks (real --config through the scripted hook, real hook manager and events handler assembled by VerifAssemble) with 1-4 schedule bindings each over 6 crontab strings (three schedules, three of them also spelled with doubled, leading or trailing blanks: a crontab is identified by its string), queues {main,q1,q2}, groups, allowFailure, includes of 0-2 kubernetes bindings; steps enable/disable a hook's schedule bindings or inject a tick into the schedule channel; after each tick the tasks appended to the queues must be exactly one per enabled binding with that crontab, in that binding's queue, with its name, group, allowFailure and include set. Non-trivial: a tick matched >= 2 enabled bindings."

func TestTicks(t *testing.T) {
	_ = os.Getenv
	ev.Main(t, ev.Spec[TickCase]{Property: "C11", Part: "ticks", Rule: ruleTick, Gen: genTick, Run: runTick})
}

func distinctEnabled(c TickCase, enabled map[int]bool) map[string]bool {
	m := map[string]bool{}
	for hi, h := range c.Hooks {
		if enabled[hi] {
			for _, sc := range h.D.Schedules {
				m[sc.Crontab] = true
			}
		}
	}
	return m
}
