# Per-property configuration of the check driver: parts (sub-harnesses), case counts per tier.
HOOK_COMMITS = ['5d7d0e7', '69e30e4', 'f2318af', '1b17814', '0da0767', 'd46a054', '73e80e2', '5658069', 'd0a9566', 'e550869', 'b87bb64']
NOT_APPLICABLE = {}

CHECKS = {
    "C05": {
        "pkg": "c05",
        "level": "exploration",
        "technique": "stateful property-based testing (rapid) against a slice reference model",
        "level_text": "Random operation histories on the real TaskQueue (pure list part with duplicate ids; worker part with a real worker goroutine parked in a handshake handler), compared step by step with an ordinary slice. Search, not proof.",
        "level_note": "Trusted: the slice model in props/c05. Ids of tasks handled by the worker are unique (UUIDs in production). Insertions relative to an absent id may be dropped or appended (the property does not fix which).",
        "assumptions": ["task ids of tasks handled by a worker are unique (as in production: UUIDs); duplicate ids are exercised on the pure list operations only"],
        "parts": [
            {"part": "purelist", "test": "TestPureList", "quick": {"checks": 4000, "shards": 2}, "thorough": {"checks": 1500000, "shards": 8}},
            {"part": "racing", "test": "TestRacing", "owned_schedule": False, "quick": {"checks": 2400, "shards": 8}, "thorough": {"checks": 200000, "shards": 16, "timeout": 3000}},
            {"part": "worker", "test": "TestWorker", "quick": {"checks": 4000, "shards": 6}, "thorough": {"checks": 1200000, "shards": 16, "timeout": 3000}},
        ],
    },
    "C07": {
        "pkg": "c07",
        "technique": "property-based differential testing (rapid): both combine twins vs a reference merge/compaction model",
        "level_text": "Random queue layouts; the contexts, monitor ids and queue remainder produced by both combine implementations are compared with a reference model written from the property statement. Search, not proof.",
        "level_note": "Trusted: the reference model in props/c07. The combined task is the head of the queue (as in production).",
        "parts": [
            {"part": "combine", "test": "TestCombine", "quick": {"checks": 20000, "shards": 4}, "thorough": {"checks": 3000000, "shards": 16, "timeout": 3000}},
            {"part": "concurrent", "test": "TestConcurrentAppend", "quick": {"checks": 8000, "shards": 4}, "thorough": {"checks": 1500000, "shards": 16, "timeout": 3000}},
        ],
    },
    "C08": {
        "pkg": "c08",
        "technique": "property-based testing (rapid) of the informer trigger decision against an independent jq projection oracle",
        "level_text": "Random per-object histories and filters through the real informer callbacks; emitted events compared exactly with the sequence the statement prescribes; snapshots compared with latest states. Search, not proof.",
        "level_note": "Trusted: gojq for computing the projection in the oracle; single-output jq expressions only; watch events are delivered by the harness (client-go reflector not in the loop).",
        "parts": [
            {"part": "informer", "test": "TestInformer", "quick": {"checks": 5000, "shards": 8}, "thorough": {"checks": 1200000, "shards": 16, "timeout": 3000}},
        ],
    },
    "C15": {
        "pkg": "c15",
        "aux_builds": [{"pkg": "./cmd/vhook", "out": "vhook"}],
        "technique": "stateful property-based testing (rapid) of the chain search against reference BFS + chain validity predicate",
        "level_text": "Random rule graphs and query sequences on the real ChainStorage; existence compared with BFS, returned chains checked for validity. Search, not proof.",
        "level_note": "Trusted: BFS reference in props/c15. 'Same version' = equal after trimming the group (one group) or equal strings (several groups, full spellings).",
        "parts": [
            {"part": "chain", "test": "TestChain", "quick": {"checks": 6000, "shards": 4}, "thorough": {"checks": 2000000, "shards": 16, "timeout": 3000}},
            {"part": "e2e", "test": "TestConversionE2E", "quick": {"checks": 240, "shards": 16, "shrinktime": "60s", "timeout": 900}, "thorough": {"checks": 6000, "shards": 16, "timeout": 6000}},
            {"part": "concurrent", "test": "TestConcurrentConversions", "owned_schedule": True, "quick": {"checks": 128, "shards": 16, "shrinktime": "60s", "timeout": 900}, "thorough": {"checks": 3000, "shards": 16, "timeout": 6000}},
        ],
    },
    "C16": {
        "pkg": "c16",
        "technique": "stateful property-based testing (rapid) of SendBatch against a reference metric registry",
        "level_text": "Random batch histories through the real parser and MetricStorage; Gather() output compared with a reference registry after every batch; invalid batches must be rejected without effect. Search, not proof.",
        "level_note": "Trusted: reference registry in props/c16. A metric name has one type and is used either grouped or ungrouped; grouped label values are group-specific (one series never alive in two groups); empty label values equal absent labels.",
        "parts": [
            {"part": "metrics", "test": "TestMetrics", "quick": {"checks": 4000, "shards": 8}, "thorough": {"checks": 1000000, "shards": 16, "timeout": 3000}},
        ],
    },
    "C20": {
        "pkg": "c20",
        "aux_builds": [{"pkg": "./cmd/vhook", "out": "vhook"}],
        "technique": "property-based testing (rapid) over generated directory trees with scripted hook executables",
        "level_text": "Random hook directory trees loaded by the real hook.Manager.Init; discovered set, order, --config invocation log and error text compared with an independent predicate over the generated description. Search, not proof.",
        "level_note": "Trusted: the scripted hook (cmd/vhook) and its invocation log; files are sh wrappers around it; tmpfs/ext4 semantics of the sandbox file system.",
        "parts": [
            {"part": "discovery", "test": "TestDiscovery", "quick": {"checks": 640, "shards": 16}, "thorough": {"checks": 60000, "shards": 16, "timeout": 3000}},
        ],
    },
    "C06": {
        "pkg": "c06",
        "aux_builds": [{"pkg": "./cmd/vhook", "out": "vhook"}],
        "technique": "property-based testing (rapid): generated hook sets loaded by the real hook manager / operator, execution order compared with the order computed from the generated set",
        "level_text": "Random hook sets (many equal onStartup orders, > 12 hooks) through the real hook manager; order of onStartup hooks compared with (order, path). Search, not proof.",
        "level_note": "Trusted: scripted hook executable and its log.",
        "parts": [
            {"part": "hookmgr", "test": "TestStartupOrder", "quick": {"checks": 320, "shards": 16}, "thorough": {"checks": 16000, "shards": 16, "timeout": 3000}},
            {"part": "e2e", "test": "TestE2E", "quick": {"checks": 240, "shards": 16, "shrinktime": "90s", "timeout": 900}, "thorough": {"checks": 5000, "shards": 16, "shrinktime": "180s", "timeout": 6000}, "owned_schedule": False, "accept_unreproduced": True},
        ],
    },
    "C11": {
        "pkg": "c11",
        "aux_builds": [{"pkg": "./cmd/vhook", "out": "vhook"}],
        "technique": "stateful property-based testing (rapid): reference-count model of crontab registrations; tick injection through the real events handler",
        "level_text": "Random add/remove histories on the real schedule manager checked against a reference-count model by firing the registered cron entries; random hook sets with injected ticks checked for exactly one task per enabled binding. Search, not proof.",
        "level_note": "Trusted: robfig/cron fires registered entries at the right wall-clock time (not examined); entries are fired through a verif-tagged accessor.",
        "parts": [
            {"part": "refcount", "test": "TestRefCount", "quick": {"checks": 5000, "shards": 4}, "thorough": {"checks": 1000000, "shards": 16, "timeout": 3000}},
            {"part": "ticks", "test": "TestTicks", "quick": {"checks": 480, "shards": 12}, "thorough": {"checks": 60000, "shards": 16, "timeout": 3000}},
        ],
    },
    "C03": {
        "pkg": "c03",
        "aux_builds": [{"pkg": "./cmd/vhook", "out": "vhook"}],
        "technique": "stateful property-based testing (rapid) of the real queue set with handshake-controlled handlers; E2E with gated hook processes",
        "level_text": "Random action sequences on a real TaskQueueSet + events handler with handshake handlers: mutual exclusion per queue, head-first execution, placement by queue name in arrival order, progress of other queues while one is stalled. Search, not proof.",
        "level_note": "Trusted: handshake handler (worker is parked in the handler or idle on an empty queue); progress is a bounded eventuality (20 s ceiling).",
        "parts": [
            {"part": "e2e", "test": "TestQueuesE2E", "owned_schedule": False, "accept_unreproduced": True, "quick": {"checks": 160, "shards": 16, "shrinktime": "60s", "timeout": 900}, "thorough": {"checks": 3000, "shards": 16, "shrinktime": "120s", "timeout": 6000}},
            {"part": "queue", "test": "TestQueueSet", "quick": {"checks": 3000, "shards": 8}, "thorough": {"checks": 100000, "shards": 16, "timeout": 3000}},
            {"part": "readers", "test": "TestReaders", "quick": {"checks": 60, "shards": 4, "shrinktime": "20s"}, "thorough": {"checks": 2000, "shards": 8, "timeout": 3000}, "owned_schedule": False},
        ],
    },
    "C17": {
        "pkg": "c17",
        "aux_builds": [{"pkg": "./cmd/vhook", "out": "vhook"}],
        "technique": "stateful property-based testing (rapid): stop request injected at generated points of a queue-set run; shutdown of the whole operator at generated points with a backlog in a side queue (fault injection: API server not answering)",
        "level_text": "Random runs of the real queue set with a stop request at a generated point (idle, in handler, in back-off, tasks still arriving); counts handler starts after the request and checks worker termination. Search, not proof.",
        "level_note": "Trusted: handshake handler; an idle queue may legitimately pick one task that arrives around the stop request (select race in the wait loop), so <= 1 start is allowed there and 0 elsewhere.",
        "parts": [
            {"part": "queue", "test": "TestQueueStop", "quick": {"checks": 1600, "shards": 16}, "thorough": {"checks": 80000, "shards": 16, "timeout": 3000}},
            {"part": "shutdown", "test": "TestShutdown", "owned_schedule": False, "accept_unreproduced": True, "quick": {"checks": 64, "shards": 16, "shrinktime": "30s", "timeout": 900}, "thorough": {"checks": 1600, "shards": 16, "shrinktime": "60s", "timeout": 6000}},
        ],
    },
    "C18": {
        "pkg": "c18",
        "aux_builds": [{"pkg": "./cmd/vhook", "out": "vhook"}],
        "technique": "property-based testing (rapid): limiter built from generated settings driven with synthetic time; E2E burst runs with in-process start timestamps",
        "level_text": "Random (interval, burst) settings through the real config loader and limiter constructor, sliding-window bound checked on synthetic time for generated arrival patterns. Search, not proof.",
        "level_note": "Trusted: golang.org/x/time/rate honours ReserveN with caller-supplied time the same way Wait does with real time.",
        "parts": [
            {"part": "limiter", "test": "TestLimiter", "quick": {"checks": 5000, "shards": 4}, "thorough": {"checks": 2000000, "shards": 16, "timeout": 3000}},
            {"part": "e2e", "test": "TestE2E", "quick": {"checks": 64, "shards": 16, "shrinktime": "30s", "timeout": 900}, "thorough": {"checks": 1200, "shards": 16, "timeout": 6000}, "owned_schedule": False},
        ],
    },
    "C13": {
        "pkg": "c13",
        "technique": "property-based differential testing (rapid): JSON vs YAML renderings of generated operation streams on identical fake clusters, plus a reference model per operation",
        "level_text": "Random operation streams in three renderings executed by the real parser and ObjectPatcher against fake clusters; final state, error class and client actions compared with each other and with a reference model; invalid streams must be rejected as a whole. Search, not proof.",
        "level_note": "Trusted: client-go object tracker as the cluster (patches are applied by the tracker's evanphx/json-patch; the reference uses its own RFC 7386 / 6902-subset evaluator); propagation policies are checked as requested, not as executed by a garbage collector.",
        "fuzz": [{"part": "bytes", "target": "FuzzPatchBytes", "seconds": 180}],
        "parts": [
            {"part": "patch", "test": "TestPatch", "quick": {"checks": 640, "shards": 16}, "thorough": {"checks": 30000, "shards": 16, "timeout": 3000}},
            {"part": "bytes", "test": "TestPatchBytes", "quick": {"checks": 8000, "shards": 8}, "thorough": {"checks": 400000, "shards": 16, "timeout": 3000}},
        ],
    },
    "C10": {
        "pkg": "c10",
        "technique": "grammar-based property testing (rapid): generated config descriptions rendered as JSON/YAML twins vs documented effective config; single-fault mutants; arbitrary bytes",
        "level_text": "Random documents from the documented grammar loaded by the real LoadAndValidate: JSON/YAML equivalence, equality with the documented effective configuration, rejection of 22 kinds of single-fault mutants, no panic on arbitrary bytes. Search, not proof.",
        "level_note": "Trusted: the expected-effective-config function written from docs/src/HOOKS.md; include lists are compared as sets.",
        "fuzz": [{"part": "bytes", "target": "FuzzBytes", "seconds": 180}],
        "parts": [
            {"part": "v0", "test": "TestV0", "quick": {"checks": 3000, "shards": 4}, "thorough": {"checks": 300000, "shards": 16, "timeout": 3000}},
            {"part": "config", "test": "TestConfig", "quick": {"checks": 4000, "shards": 8}, "thorough": {"checks": 200000, "shards": 16, "timeout": 3000}},
            {"part": "bytes", "test": "TestBytes", "quick": {"checks": 16000, "shards": 8}, "thorough": {"checks": 1000000, "shards": 16, "timeout": 3000}},
        ],
    },
    "C19": {
        "pkg": "c19",
        "engine": "shellfw",
        "technique": "property-based differential testing (rapid): generated bash hooks run by real bash+jq vs a Go reference dispatcher",
        "level_text": "Random (context array, defined handler set) pairs executed through the real shell framework under strict mode; invocation log and exit status compared with a reference dispatcher written from the property. Search, not proof.",
        "level_note": "Trusted: bash 5.2 and jq 1.6 of the sandbox; handler names containing a space cannot be defined in bash and are therefore never defined by the generator.",
        "parts": [
            {"part": "dispatch", "test": "TestDispatch", "quick": {"checks": 1200, "shards": 16, "timeout": 900}, "thorough": {"checks": 12000, "shards": 16, "timeout": 6000}},
        ],
    },
    "C12": {
        "pkg": "c12",
        "engine": "e2e-opkit",
        "aux_builds": [{"pkg": "./cmd/vhook", "out": "vhook"}],
        "technique": "property-based fault injection (rapid): generated hook scripts (exit code x output file contents) run by the real operator on a fake cluster, observed from inside the hook process",
        "level_text": "Random sequences of scripted hook executions through the full operator; environment, files, outcome and temp directory checked per execution. Search over the fault table, not a proof.",
        "level_note": "Trusted: scripted hook binary and its log; fake cluster; 'deleted output file' outcomes are not judged (not covered by the statement).",
        "parts": [
            {"part": "exec", "test": "TestExec", "quick": {"checks": 480, "shards": 16, "shrinktime": "60s", "timeout": 900}, "thorough": {"checks": 6000, "shards": 16, "shrinktime": "120s", "timeout": 6000}, "owned_schedule": False},
            {"part": "samehook", "test": "TestSameHookConcurrent", "quick": {"checks": 96, "shards": 16, "shrinktime": "30s", "timeout": 900}, "thorough": {"checks": 2000, "shards": 16, "timeout": 6000}, "owned_schedule": False, "accept_unreproduced": True},
        ],
    },
    "C14": {
        "pkg": "c14",
        "engine": "e2e-opkit",
        "aux_builds": [{"pkg": "./cmd/vhook", "out": "vhook"}],
        "technique": "property-based fault injection (rapid): generated admission requests x scripted hook outcomes through the real HTTP router and operator, decision-table oracle; overlapping requests with a generated, harness-owned order in which the hook executions end",
        "level_text": "Random binding sets, request paths/bodies and hook outcomes through the real admission router, event handler and hook processes; allowed=true only per the decision table; verdict relay and routing checked against the hook log. Search over the fault table, not a proof.",
        "level_note": "Trusted: scripted hook binary; httptest instead of the TLS listener; webhook ids that collide after sanitising are only required to fail closed and to run a hook that registered the id.",
        "parts": [
            {"part": "admission", "test": "TestAdmission", "quick": {"checks": 320, "shards": 16, "shrinktime": "60s", "timeout": 900}, "thorough": {"checks": 8000, "shards": 16, "shrinktime": "120s", "timeout": 6000}},
            {"part": "concurrent", "test": "TestConcurrent", "owned_schedule": True, "quick": {"checks": 160, "shards": 16, "shrinktime": "60s", "timeout": 900}, "thorough": {"checks": 4000, "shards": 16, "shrinktime": "120s", "timeout": 6000}},
        ],
    },
    "C04": {
        "pkg": "c04",
        "engine": "e2e-opkit",
        "aux_builds": [{"pkg": "./cmd/vhook", "out": "vhook"}],
        "technique": "property-based fault injection (rapid): scripted failure patterns against the real operator, execution log compared with a retry/combine reference model; pure property test of the back-off delay",
        "level_text": "Random queue contents and failure scripts (k failures then success, several failure kinds) through the real task handler with real hook processes; per-queue execution sequences and retry gaps compared with the model the property prescribes. Search, not proof.",
        "level_note": "Trusted: scripted hook and its in-process timestamps (gap is over-estimated, so 'gap >= initial delay' cannot be falsely flagged); the back-off function of the queues is capped at 60 ms for retries > 0 to keep cases fast (CalculateDelay itself is checked separately for all retry counts).",
        "parts": [
            {"part": "delay", "test": "TestDelay", "quick": {"checks": 20000, "shards": 2}, "thorough": {"checks": 2000000, "shards": 16}},
            {"part": "retry", "test": "TestRetry", "quick": {"checks": 320, "shards": 16, "shrinktime": "90s", "timeout": 900}, "thorough": {"checks": 4000, "shards": 16, "shrinktime": "180s", "timeout": 6000}},
        ],
    },
    "C01": {
        "pkg": "c01",
        "engine": "sched",
        "aux_builds": [{"pkg": "./cmd/vhook", "out": "vhook"}],
        "technique": "schedule-owning property-based testing (rapid): cooperative scheduler over yield points between the critical sections of the kube events manager, replay oracle over the delivered history",
        "level_text": "Random configurations, histories and interleavings (the schedule is a generated value, shrunk and replayed) of informer deliveries, snapshot reads and the unlock on the real monitor; per-object replay oracle (view + Events reproduce the changes in order) and no Event before unlock. Search over schedules, not a proof.",
        "level_note": "Trusted: the yield points are between critical sections (lock-delimited atomic steps); watch events are delivered by the harness with reflector semantics; fake cluster as ground truth.",
        "parts": [
            {"part": "monitors", "test": "TestMonitors", "owned_schedule": False, "quick": {"checks": 320, "shards": 16, "shrinktime": "60s", "timeout": 900}, "thorough": {"checks": 8000, "shards": 16, "shrinktime": "120s", "timeout": 6000}},
            {"part": "sched", "test": "TestSched", "quick": {"checks": 4000, "shards": 8}, "thorough": {"checks": 300000, "shards": 16, "timeout": 3000}},
            {"part": "e2e", "test": "TestE2E", "quick": {"checks": 240, "shards": 16, "shrinktime": "90s", "timeout": 900}, "thorough": {"checks": 5000, "shards": 16, "shrinktime": "180s", "timeout": 6000}, "owned_schedule": False},
        ],
    },
    "C02": {
        "pkg": "c02",
        "engine": "sched",
        "aux_builds": [{"pkg": "./cmd/vhook", "out": "vhook"}],
        "technique": "schedule-owning property-based testing (rapid): every snapshot compared with a reference cache model and structural invariants; final snapshot compared with the fake cluster",
        "level_text": "Random histories and interleavings on the real monitor; each Snapshot() result checked for structure (no duplicates, order, filter consistency) and against a reference cache model, and the quiescent snapshot against the cluster. Search, not proof.",
        "level_note": "Trusted: as C01; reference cache model in internal/ksched.",
        "parts": [
            {"part": "monitors", "test": "TestMonitors", "owned_schedule": False, "quick": {"checks": 320, "shards": 16, "shrinktime": "60s", "timeout": 900}, "thorough": {"checks": 8000, "shards": 16, "shrinktime": "120s", "timeout": 6000}},
            {"part": "sched", "test": "TestSched", "quick": {"checks": 4000, "shards": 8}, "thorough": {"checks": 300000, "shards": 16, "timeout": 3000}},
            {"part": "updatesnapshots", "test": "TestUpdateSnapshots", "quick": {"checks": 3000, "shards": 8}, "thorough": {"checks": 800000, "shards": 16, "timeout": 3000}},
            {"part": "e2e", "test": "TestE2E", "quick": {"checks": 240, "shards": 16, "shrinktime": "90s", "timeout": 900}, "thorough": {"checks": 5000, "shards": 16, "shrinktime": "180s", "timeout": 6000}, "owned_schedule": False},
        ],
    },
    "C09": {
        "pkg": "c09",
        "engine": "e2e-opkit",
        "aux_builds": [{"pkg": "./cmd/vhook", "out": "vhook"}],
        "technique": "property-based testing (rapid): generated operator scenarios, every binding context file read back from the hook process and checked against a per-type shape table and an independent jq evaluation",
        "level_text": "Random hook configurations and cluster histories through the full operator with real informers and hook processes; each binding context item the hooks received is checked against the documented contract. Search, not proof.",
        "level_note": "Trusted: scripted hook copies the context file verbatim; gojq for the independent filter evaluation; fake cluster watch semantics.",
        "parts": [
            {"part": "e2e", "test": "TestContexts", "quick": {"checks": 400, "shards": 16, "shrinktime": "90s", "timeout": 900}, "thorough": {"checks": 6000, "shards": 16, "shrinktime": "180s", "timeout": 6000}, "owned_schedule": False},
            {"part": "names", "test": "TestBindingNames", "quick": {"checks": 160, "shards": 16, "shrinktime": "60s", "timeout": 900}, "thorough": {"checks": 4000, "shards": 16, "shrinktime": "120s", "timeout": 6000}, "owned_schedule": False},
            {"part": "webhooks", "test": "TestWebhookContexts", "quick": {"checks": 240, "shards": 16, "shrinktime": "60s", "timeout": 900}, "thorough": {"checks": 6000, "shards": 16, "shrinktime": "120s", "timeout": 6000}, "owned_schedule": True},
        ],
    },
}
