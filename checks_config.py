# Per-property configuration of the check driver: parts (sub-harnesses), case counts per tier.
HOOK_COMMITS = []
NOT_APPLICABLE = {}

CHECKS = {
    "C05": {
        "pkg": "c05",
        "level": "exploration",
        "technique": "stateful property-based testing (rapid) against a slice reference model",
        "level_text": "Random operation histories on the real TaskQueue (pure list part with duplicate ids; worker part with a real worker goroutine parked in a handshake handler), compared step by step with an ordinary slice. Search, not proof.",
        "level_note": "Trusted: the slice model in props/c05. Ids of tasks handled by the worker are unique (UUIDs in production). Insertions relative to an absent id may be dropped or appended (the property does not fix which).",
        "assumptions": ["task ids of tasks handled by a worker are unique (as in production: UUIDs); duplicate ids are exercised on the pure list operations only"],
        "parts": [
            {"part": "purelist", "test": "TestPureList", "quick": {"checks": 4000, "shards": 2}, "thorough": {"checks": 400000, "shards": 8}},
            {"part": "worker", "test": "TestWorker", "quick": {"checks": 4000, "shards": 6}, "thorough": {"checks": 300000, "shards": 16, "timeout": 3000}},
        ],
    },
}
