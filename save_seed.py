#!/usr/bin/env python3
"""save_seed.py <ID> <slug> <needs> <status>  : copies /tmp/seed-<ID> into /verif/seeded/<ID>-<slug>/ with meta.json"""
import sys, os, shutil, json, glob
pid, slug, needs, status = sys.argv[1:5]
import os as _os
ROUND=_os.environ.get('SEED_ROUND','')
src='/tmp/seed%s-%s'%(ROUND,pid)
dst='/verif/seeded/%s-%s'%(pid,slug)
os.makedirs(dst,exist_ok=True)
shutil.copy(src+'/patch.diff',dst+'/patch.diff')
for f in glob.glob(src+'/*_test.go')+glob.glob(src+'/*.md'):
    shutil.copy(f,dst)
demo=[os.path.basename(f) for f in glob.glob(src+'/*_test.go')]
meta={"property":pid,"slug":slug,"needs_to_manifest":needs,"demonstration":demo,
 "confirmed":"verify_seed.sh in scratch worktree /tmp/wt%s-%s: go build ok; full suite passes with the change; demonstration fails with the change and passes without it"%(ROUND,pid),
 "checked_with":"./seedtest.sh seeded/%s-%s/patch.diff %s (git -C /repo apply; ./check %s --tier quick; git -C /repo checkout -- .)"%(pid,slug,pid,pid),
 "result":status}
json.dump(meta,open(dst+'/meta.json','w'),indent=1)
print(dst)
