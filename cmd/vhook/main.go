// vhook is the scripted hook executable used by the verification harness.
// Invocation (through a generated sh wrapper): vhook <hookpath> <root> [--config]
package main

import (
	"encoding/json"
	"fmt"
	"os"
	"path/filepath"
	"sort"
	"strings"
	"syscall"
	"time"

	"verif/internal/vh"
)

func die(format string, a ...any) {
	fmt.Fprintf(os.Stderr, "vhook: "+format+"\n", a...)
	os.Exit(97)
}

func appendLog(root string, r vh.Record) {
	b, _ := json.Marshal(r)
	b = append(b, '\n')
	f, err := os.OpenFile(filepath.Join(root, ".vhook", "log.jsonl"), os.O_APPEND|os.O_CREATE|os.O_WRONLY, 0o644)
	if err != nil {
		die("log: %v", err)
	}
	if _, err := f.Write(b); err != nil {
		die("log write: %v", err)
	}
	f.Close()
}

type state struct {
	Seq  int   `json:"seq"`
	Used []int `json:"used"`
}

// pick chooses the rule under an exclusive lock on the per-hook state file.
func pick(root, rel string, s vh.Script, ctx string) (int, int) {
	sp := filepath.Join(root, ".vhook", "state", rel+".json")
	os.MkdirAll(filepath.Dir(sp), 0o755)
	f, err := os.OpenFile(sp, os.O_RDWR|os.O_CREATE, 0o644)
	if err != nil {
		die("state: %v", err)
	}
	defer f.Close()
	if err := syscall.Flock(int(f.Fd()), syscall.LOCK_EX); err != nil {
		die("flock: %v", err)
	}
	defer syscall.Flock(int(f.Fd()), syscall.LOCK_UN)
	var st state
	b, _ := os.ReadFile(sp)
	_ = json.Unmarshal(b, &st)
	for len(st.Used) < len(s.Rules) {
		st.Used = append(st.Used, 0)
	}
	st.Seq++
	idx := -1
	for i, r := range s.Rules {
		if r.Match != "" && !strings.Contains(ctx, r.Match) {
			continue
		}
		if r.Times > 0 && st.Used[i] >= r.Times {
			continue
		}
		st.Used[i]++
		idx = i
		break
	}
	nb, _ := json.Marshal(st)
	f.Truncate(0)
	f.WriteAt(nb, 0)
	return idx, st.Seq
}

func writeOut(path string, fl *vh.File) {
	if fl == nil || path == "" {
		return
	}
	if fl.Delete {
		os.Remove(path)
		return
	}
	if err := os.WriteFile(path, []byte(fl.Content), 0o644); err != nil {
		die("write %s: %v", path, err)
	}
}

func convert(ctx string, to string, drop int, failMsg string) string {
	var arr []map[string]any
	if err := json.Unmarshal([]byte(ctx), &arr); err != nil || len(arr) == 0 {
		return ""
	}
	review, _ := arr[0]["review"].(map[string]any)
	req, _ := review["request"].(map[string]any)
	objs, _ := req["objects"].([]any)
	out := []any{}
	for _, o := range objs {
		m, ok := o.(map[string]any)
		if !ok {
			continue
		}
		m["apiVersion"] = to
		out = append(out, m)
	}
	if drop < 0 {
		// surplus: the first object is written more than once
		for i := 0; i < -drop && len(out) > 0; i++ {
			out = append(out, out[0])
		}
		drop = 0
	}
	if drop > len(out) {
		drop = len(out)
	}
	out = out[:len(out)-drop]
	resp := map[string]any{"convertedObjects": out}
	if failMsg != "" {
		resp["failedMessage"] = failMsg
	}
	b, _ := json.Marshal(resp)
	return string(b)
}

func main() {
	if len(os.Args) < 3 {
		die("usage: vhook <hookpath> <root> [args]")
	}
	hookPath, root := os.Args[1], os.Args[2]
	args := os.Args[3:]
	rel, err := filepath.Rel(root, hookPath)
	if err != nil {
		die("rel: %v", err)
	}
	var script vh.Script
	sb, err := os.ReadFile(filepath.Join(root, ".vhook", "scripts", rel+".json"))
	if err != nil {
		die("no script for %s: %v", rel, err)
	}
	if err := json.Unmarshal(sb, &script); err != nil {
		die("bad script: %v", err)
	}
	cwd, _ := os.Getwd()
	if len(args) > 0 && args[0] == "--config" {
		appendLog(root, vh.Record{Hook: rel, Phase: "config", Pid: os.Getpid(), T: time.Now().UnixNano(), Args: args, Cwd: cwd, Exit: script.ConfigExit})
		fmt.Print(script.Config)
		os.Exit(script.ConfigExit)
	}

	rec := vh.Record{Hook: rel, Phase: "start", Pid: os.Getpid(), Args: args, Cwd: cwd, Env: map[string]string{}, Files: map[string]vh.FileStat{}}
	for _, n := range vh.EnvNames {
		v, ok := os.LookupEnv(n)
		if ok {
			rec.Env[n] = v
		}
		if n != "BINDING_CONTEXT_PATH" && ok {
			st, err := os.Stat(v)
			if err == nil {
				rec.Files[n] = vh.FileStat{Exists: true, Size: st.Size()}
			} else {
				rec.Files[n] = vh.FileStat{}
			}
		}
	}
	ctxBytes, _ := os.ReadFile(os.Getenv("BINDING_CONTEXT_PATH"))
	if json.Valid(ctxBytes) {
		rec.Context = json.RawMessage(ctxBytes)
	} else {
		rec.RawCtx = string(ctxBytes)
	}
	if p := os.Getenv("BINDING_CONTEXT_PATH"); p != "" {
		ents, _ := os.ReadDir(filepath.Dir(p))
		for _, e := range ents {
			rec.TmpList = append(rec.TmpList, e.Name())
		}
		sort.Strings(rec.TmpList)
	}
	idx, seq := pick(root, rel, script, string(ctxBytes))
	rec.Rule, rec.Seq = idx, seq
	var do vh.Behaviour
	if idx >= 0 {
		do = script.Rules[idx].Do
	}
	rec.Exit = do.Exit
	rec.T = time.Now().UnixNano()
	appendLog(root, rec)

	if do.Gate != "" {
		gp := filepath.Join(root, ".vhook", "gates", do.Gate)
		for {
			if _, err := os.Stat(gp); err == nil {
				break
			}
			time.Sleep(time.Millisecond)
		}
	}
	if do.SleepMs > 0 {
		time.Sleep(time.Duration(do.SleepMs) * time.Millisecond)
	}
	writeOut(os.Getenv("METRICS_PATH"), do.Metrics)
	writeOut(os.Getenv("KUBERNETES_PATCH_PATH"), do.Patch)
	writeOut(os.Getenv("ADMISSION_RESPONSE_PATH"), do.Admission)
	writeOut(os.Getenv("CONVERSION_RESPONSE_PATH"), do.Conversion)
	if do.ConvertTo != "" {
		writeOut(os.Getenv("CONVERSION_RESPONSE_PATH"), &vh.File{Content: convert(string(ctxBytes), do.ConvertTo, do.ConvertDrop, do.ConvertFailMsg)})
	}
	if do.PostGate != "" {
		appendLog(root, vh.Record{Hook: rel, Phase: "written", Seq: seq, Pid: os.Getpid(), T: time.Now().UnixNano(), Rule: idx})
		gp := filepath.Join(root, ".vhook", "gates", do.PostGate)
		for {
			if _, err := os.Stat(gp); err == nil {
				break
			}
			time.Sleep(time.Millisecond)
		}
	}
	end := vh.Record{Hook: rel, Phase: "end", Seq: seq, Pid: os.Getpid(), T: time.Now().UnixNano(), Rule: idx, Exit: do.Exit}
	appendLog(root, end)
	if do.Signal {
		syscall.Kill(os.Getpid(), syscall.SIGKILL)
		time.Sleep(time.Second)
	}
	os.Exit(do.Exit)
}
