#!/usr/bin/env python3-vt
import json,jsonschema,glob,sys
jsonschema.validate(json.load(open('/verif/MANIFEST.json')), json.load(open('/root/.vp/MANIFEST.schema.json')))
es=json.load(open('/root/.vp/EVIDENCE.schema.json'))
for f in sorted(glob.glob('/verif/evidence/*.json')):
    jsonschema.validate(json.load(open(f)), es)
    print("ok", f)
m=json.load(open('/verif/MANIFEST.json'))
ids=[json.loads(l)['id'] for l in open('/verif/properties.jsonl')]
claimed=[c['property_id'] for c in m['checks']]
na=[c['property_id'] for c in m.get('not_applicable',[])]
print("claimed",claimed); print("unaccounted",[i for i in ids if i not in claimed and i not in na])
